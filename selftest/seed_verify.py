#!/usr/bin/env python3
"""Confirm a sub-agent's seeded change and keep it under seeded/<name>/.

  selftest/seed_verify.py /tmp/seed-C01 [--name C01-a] [--props C01,C05] [--tier quick]

Confirms in a scratch copy (outside /repo and /verif): patch applies to the current /repo tree, the repository's
55 tests still pass with it, demo.py fails with it and passes without it.  Then runs the listed checks on the
changed copy and records which ones report a violation."""
import argparse
import json
import os
import shutil
import subprocess
import sys
import tempfile

HERE = os.path.dirname(os.path.dirname(os.path.abspath(__file__)))


def sh(cmd, **kw):
    return subprocess.run(cmd, capture_output=True, text=True, **kw)


def main():
    ap = argparse.ArgumentParser()
    ap.add_argument("src")
    ap.add_argument("--name")
    ap.add_argument("--props", default="")
    ap.add_argument("--tier", default="quick")
    ap.add_argument("--repo", default="/repo")
    ap.add_argument("--no-keep", action="store_true")
    args = ap.parse_args()
    meta = json.load(open(os.path.join(args.src, "meta.json")))
    prop = meta["property"]
    name = args.name or prop
    props = [p for p in args.props.split(",") if p] or [prop]
    tmp = tempfile.mkdtemp(prefix="rv-seed-", dir="/tmp")
    copy = os.path.join(tmp, "repo")
    report = {"property": prop, "ran": []}
    try:
        shutil.copytree(args.repo, copy, ignore=shutil.ignore_patterns(".git", "__pycache__", "*.pyc"))
        demo = os.path.join(args.src, "demo.py")
        env0 = dict(os.environ, PYTHONPATH=os.path.join(copy, "src"), TQDM_DISABLE="1")
        d0 = sh(["/venv/bin/python", "-B", demo], env=env0, cwd=tmp, timeout=1200)
        report["demo_on_original"] = d0.returncode
        p = sh(["patch", "-p1", "-s"], input=open(os.path.join(args.src, "patch.diff")).read(), cwd=copy)
        report["patch_applies"] = p.returncode == 0
        if p.returncode != 0:
            print("PATCH FAILED", p.stdout, p.stderr)
            print(json.dumps(report))
            return 2
        t = sh(["/venv/bin/python", "-B", "-m", "pytest", "-q", "-p", "no:cacheprovider", "--timeout=900",
                "--deselect", "tests/render/test_draw.py::test_fixtures", "--deselect", "tests/utils/test_tex.py::test_measure"], cwd=copy, env=env0)
        report["tests_with_change"] = (t.stdout.strip().splitlines() or ["?"])[-1]
        report["tests_pass"] = t.returncode == 0
        d1 = sh(["/venv/bin/python", "-B", demo], env=env0, cwd=tmp, timeout=1200)
        report["demo_on_changed"] = d1.returncode
        report["demo_changed_tail"] = d1.stdout.strip().splitlines()[-3:]
        confirmed = report["tests_pass"] and d0.returncode == 0 and d1.returncode != 0
        report["confirmed"] = confirmed
        report["checks"] = {}
        for pr in props:
            envc = dict(os.environ, VERIF_REPO=copy, VERIF_REPLAYS=os.path.join(tmp, "replays"))
            c = sh([os.path.join(HERE, "check"), pr, "--tier", args.tier, "--no-evidence"], env=envc)
            mons = sorted({l.split("monitor=")[1].split(":")[0] for l in c.stdout.splitlines() if l.strip().startswith("monitor=")})
            first = next((l.strip() for l in c.stdout.splitlines() if l.strip().startswith("monitor=")), "")
            report["checks"][pr] = {"exit": c.returncode, "monitors": mons, "first": first[:300]}
        print(json.dumps(report, indent=1))
        if confirmed and not args.no_keep:
            dst = os.path.join(HERE, "seeded", name)
            os.makedirs(dst, exist_ok=True)
            shutil.copy(os.path.join(args.src, "patch.diff"), dst)
            shutil.copy(demo, dst)
            meta["confirmed_by_me"] = {k: report[k] for k in ("demo_on_original", "demo_on_changed", "tests_with_change", "patch_applies")}
            meta["what_i_ran"] = ["patch -p1 on a scratch copy of /repo", "repo test suite (55 tests) on the copy", "demo.py on original and changed copy", f"./check {{{','.join(props)}}} --tier {args.tier} with VERIF_REPO=<copy>"]
            meta["caught_by"] = sorted(set(meta.get("caught_by", [])) | {p for p, c in report["checks"].items() if c["exit"] == 1})
            meta["check_results"] = dict(meta.get("check_results", {}), **{p: c for p, c in report["checks"].items()})
            json.dump(meta, open(os.path.join(dst, "meta.json"), "w"), indent=1)
        return 0 if confirmed else 1
    finally:
        shutil.rmtree(tmp, ignore_errors=True)


if __name__ == "__main__":
    sys.exit(main())
