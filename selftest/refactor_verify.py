#!/usr/bin/env python3
"""False-alarm test: apply a BEHAVIOUR-PRESERVING refactoring (written by an independent sub-agent, with its own
differential fuzzer) to a scratch copy and run every check on it.  Every check must stay silent (exit 0).

  selftest/refactor_verify.py /tmp/seedR-R1 [--name R1] [--props C01,C05] [--tier quick]

Keeps patch.diff, difftest.py, meta.json (+ results) under refactors/<name>/."""
import argparse
import json
import os
import shutil
import subprocess
import sys
import tempfile

HERE = os.path.dirname(os.path.dirname(os.path.abspath(__file__)))
ALL = [f"C{i:02d}" for i in range(1, 21)]


def main():
    ap = argparse.ArgumentParser()
    ap.add_argument("src")
    ap.add_argument("--name")
    ap.add_argument("--props", default="")
    ap.add_argument("--tier", default="quick")
    ap.add_argument("--repo", default="/repo")
    args = ap.parse_args()
    name = args.name or os.path.basename(args.src.rstrip("/")).replace("seedR-", "")
    props = [p for p in args.props.split(",") if p] or ALL
    meta = json.load(open(os.path.join(args.src, "meta.json")))
    tmp = tempfile.mkdtemp(prefix="rv-refac-", dir="/tmp")
    cp = os.path.join(tmp, "repo")
    res = {"name": name, "checks": {}}
    try:
        shutil.copytree(args.repo, cp, ignore=shutil.ignore_patterns(".git", "__pycache__", "*.pyc"))
        p = subprocess.run(["patch", "-p1", "-s"], input=open(os.path.join(args.src, "patch.diff")).read(), text=True, cwd=cp, capture_output=True)
        if p.returncode:
            print("PATCH FAILED", p.stdout, p.stderr)
            return 2
        diff = open(os.path.join(args.src, "patch.diff")).read()
        res["changed_lines"] = sum(1 for l in diff.splitlines() if l[:1] in "+-" and not l.startswith(("+++", "---")))
        env = dict(os.environ, PYTHONPATH=os.path.join(cp, "src"), TQDM_DISABLE="1")
        t = subprocess.run(["/venv/bin/python", "-B", "-m", "pytest", "-q", "-p", "no:cacheprovider", "--timeout=900",
                            "--deselect", "tests/render/test_draw.py::test_fixtures", "--deselect", "tests/utils/test_tex.py::test_measure"],
                           cwd=cp, env=env, capture_output=True, text=True)
        res["tests"] = (t.stdout.strip().splitlines() or ["?"])[-1]
        for pr in props:
            envc = dict(os.environ, VERIF_REPO=cp, VERIF_REPLAYS=os.path.join(tmp, "replays"))
            c = subprocess.run([os.path.join(HERE, "check"), pr, "--tier", args.tier, "--no-evidence"], env=envc, capture_output=True, text=True)
            lines = [l.strip()[:300] for l in c.stdout.splitlines() if l.strip().startswith(("monitor=", "INCONCLUSIVE"))]
            res["checks"][pr] = {"exit": c.returncode, "lines": lines[:4]}
            print(pr, c.returncode, lines[:2], flush=True)
        res["silent"] = all(c["exit"] == 0 for c in res["checks"].values())
        dst = os.path.join(HERE, "refactors", name)
        os.makedirs(dst, exist_ok=True)
        for f in ("patch.diff", "difftest.py"):
            if os.path.exists(os.path.join(args.src, f)) and os.path.abspath(args.src) != os.path.abspath(dst):
                shutil.copy(os.path.join(args.src, f), dst)
        prev = meta.get("results", {})
        if prev.get("checks") and set(props) != set(ALL):
            # a partial re-run (after a check was extended): merge into the earlier full result
            merged = dict(prev["checks"], **res["checks"])
            out = dict(prev)
            out.update(res)
            out["checks"] = merged
            out["silent"] = all(c["exit"] == 0 for c in merged.values())
            out["reruns"] = prev.get("reruns", []) + [{"props": props, "tier": args.tier}]
            res = out
        meta["results"] = res
        json.dump(meta, open(os.path.join(dst, "meta.json"), "w"), indent=1)
        print(json.dumps({k: v for k, v in res.items() if k != "checks"}))
        return 0 if res["silent"] else 1
    finally:
        shutil.rmtree(tmp, ignore_errors=True)


if __name__ == "__main__":
    sys.exit(main())
