#!/usr/bin/env python3
"""Replay audit: for every kept seeded change, run the check that catches it on a scratch copy with the change,
then feed each VIOLATION replay file back through `./check <id> --replay <file>`:
  * on the changed copy the replay must reproduce a violation (exit 1);
  * on the unchanged /repo the same replay must be clean (exit 0).

  selftest/replay_audit.py [--only SUBSTR] [--jobs 3] [--out selftest/REPLAY_AUDIT.json]
"""
import argparse
import concurrent.futures
import glob
import json
import os
import shutil
import subprocess
import sys
import tempfile

HERE = os.path.dirname(os.path.dirname(os.path.abspath(__file__)))


def one(name, repo):
    d = os.path.join(HERE, "seeded", name)
    meta = json.load(open(os.path.join(d, "meta.json")))
    props = [p for p, c in meta.get("check_results", {}).items() if c.get("exit") == 1] or [meta["property"]]
    prop = meta["property"] if meta["property"] in props else props[0]
    tmp = tempfile.mkdtemp(prefix="rv-rpl-", dir="/tmp")
    cp = os.path.join(tmp, "repo")
    res = {"name": name, "prop": prop}
    try:
        shutil.copytree(repo, cp, ignore=shutil.ignore_patterns(".git", "__pycache__", "*.pyc"))
        p = subprocess.run(["patch", "-p1", "-s"], input=open(os.path.join(d, "patch.diff")).read(), text=True, cwd=cp, capture_output=True)
        if p.returncode:
            res["error"] = "patch failed"
            return res
        rdir = os.path.join(tmp, "replays")
        env = dict(os.environ, VERIF_REPO=cp, VERIF_REPLAYS=rdir)
        c = subprocess.run([os.path.join(HERE, "check"), prop, "--tier", "quick", "--no-evidence"], env=env, capture_output=True, text=True)
        res["check_exit"] = c.returncode
        files = [l.split("replay=")[1].strip() for l in c.stdout.splitlines() if l.startswith("VIOLATION")]
        res["n_replays"] = len(files)
        res["replays"] = []
        for f in files[:3]:
            mon = json.load(open(f))["monitor"]
            a = subprocess.run([os.path.join(HERE, "check"), prop, "--replay", f], env=env, capture_output=True, text=True)
            b = subprocess.run([os.path.join(HERE, "check"), prop, "--replay", f], env=dict(os.environ, VERIF_REPLAYS=rdir + "2"), capture_output=True, text=True)
            res["replays"].append({"monitor": mon, "on_changed": a.returncode, "on_unchanged": b.returncode,
                                   "tail_changed": a.stdout.strip().splitlines()[-1:] if a.returncode != 1 else [],
                                   "tail_unchanged": b.stdout.strip().splitlines()[-2:] if b.returncode != 0 else []})
        res["ok"] = bool(files) and all(r["on_changed"] == 1 and r["on_unchanged"] == 0 for r in res["replays"])
    finally:
        shutil.rmtree(tmp, ignore_errors=True)
    return res


def main():
    ap = argparse.ArgumentParser()
    ap.add_argument("--only", default="")
    ap.add_argument("--jobs", type=int, default=3)
    ap.add_argument("--repo", default="/repo")
    ap.add_argument("--out", default=os.path.join(HERE, "selftest", "REPLAY_AUDIT.json"))
    args = ap.parse_args()
    names = sorted(os.path.basename(os.path.dirname(p)) for p in glob.glob(os.path.join(HERE, "seeded", "*", "meta.json")))
    names = [n for n in names if args.only in n]
    out = []
    with concurrent.futures.ThreadPoolExecutor(max_workers=args.jobs) as ex:
        for r in ex.map(lambda n: one(n, args.repo), names):
            out.append(r)
            bad = [x for x in r.get("replays", []) if x["on_changed"] != 1 or x["on_unchanged"] != 0]
            print(("ok  " if r.get("ok") else "BAD ") + r["name"], r["prop"], "check exit", r.get("check_exit"), "replays", r.get("n_replays"), json.dumps(bad)[:400] if bad else "", flush=True)
    json.dump(out, open(args.out, "w"), indent=1)
    print(sum(1 for r in out if r.get("ok")), "of", len(out), "ok")
    return 0


if __name__ == "__main__":
    sys.exit(main())
