#!/usr/bin/env python3
"""Run every hand-written mutant (selftest/mutants.py) and every kept seeded change (seeded/*/patch.diff):
apply to a scratch copy, run the repository's own tests (must still pass), run the expected checks (must exit 1).

  selftest/run_all.py [--only NAME_SUBSTRING] [--jobs 3] [--tier quick] [--out selftest/RESULTS.json] [--all-props]
"""
import argparse
import concurrent.futures
import json
import os
import shutil
import subprocess
import sys
import tempfile
import time

HERE = os.path.dirname(os.path.dirname(os.path.abspath(__file__)))
sys.path.insert(0, os.path.join(HERE, "selftest"))
ALL_PROPS = [f"C{i:02d}" for i in range(1, 21)]


def run_one(kind, name, props, apply_fn, tier, repo, all_props):
    tmp = tempfile.mkdtemp(prefix="rv-mut-", dir=os.environ.get("VERIF_TMP", "/tmp"))
    copy = os.path.join(tmp, "repo")
    res = {"name": name, "kind": kind, "expected": props, "checks": {}, "tests": None}
    t0 = time.time()
    try:
        shutil.copytree(repo, copy, ignore=shutil.ignore_patterns(".git", "__pycache__", "*.pyc"))
        err = apply_fn(copy)
        if err:
            res["error"] = err
            return res
        env = dict(os.environ, PYTHONPATH=os.path.join(copy, "src"), TQDM_DISABLE="1")
        t = subprocess.run(
            ["/venv/bin/python", "-B", "-m", "pytest", "-q", "-p", "no:cacheprovider", "--timeout=900",
             "--deselect", "tests/render/test_draw.py::test_fixtures", "--deselect", "tests/utils/test_tex.py::test_measure"],
            cwd=copy, env=env, capture_output=True, text=True)
        res["tests"] = "pass" if t.returncode == 0 else "FAIL: " + (t.stdout.strip().splitlines() or ["?"])[-1]
        for prop in (ALL_PROPS if all_props else props):
            envc = dict(os.environ, VERIF_REPO=copy, VERIF_REPLAYS=os.path.join(tmp, "replays"))
            c = subprocess.run([os.path.join(HERE, "check"), prop, "--tier", tier, "--no-evidence"], env=envc, capture_output=True, text=True)
            mons = sorted({l.split("monitor=")[1].split(":")[0] for l in c.stdout.splitlines() if l.strip().startswith("monitor=")})
            res["checks"][prop] = {"exit": c.returncode, "monitors": mons}
    finally:
        shutil.rmtree(tmp, ignore_errors=True)
    res["wall_s"] = round(time.time() - t0, 1)
    return res


def main():
    ap = argparse.ArgumentParser()
    ap.add_argument("--only", default="")
    ap.add_argument("--jobs", type=int, default=3)
    ap.add_argument("--tier", default="quick")
    ap.add_argument("--repo", default="/repo")
    ap.add_argument("--out", default=os.path.join(HERE, "selftest", "RESULTS.json"))
    ap.add_argument("--all-props", action="store_true")
    ap.add_argument("--no-seeded", action="store_true")
    ap.add_argument("--no-mutants", action="store_true")
    args = ap.parse_args()
    from mutants import MUTANTS

    work = []
    if not args.no_mutants:
        for name, props, path, old, new in MUTANTS:
            if args.only and args.only not in name:
                continue

            def apply_fn(copy, path=path, old=old, new=new):
                p = os.path.join(copy, path)
                s = open(p).read()
                if s.count(old) != 1:
                    return f"pattern found {s.count(old)} times in {path}"
                open(p, "w").write(s.replace(old, new))
                return None

            work.append(("mutant", name, props, apply_fn))
    sd = os.path.join(HERE, "seeded")
    if not args.no_seeded and os.path.isdir(sd):
        for d in sorted(os.listdir(sd)):
            pf = os.path.join(sd, d, "patch.diff")
            if not os.path.exists(pf) or (args.only and args.only not in d):
                continue
            meta = json.load(open(os.path.join(sd, d, "meta.json")))
            props = meta.get("caught_by") or [meta["property"]]

            def apply_fn(copy, pf=pf):
                p = subprocess.run(["patch", "-p1", "-s"], input=open(pf).read(), text=True, cwd=copy, capture_output=True)
                return None if p.returncode == 0 else "patch failed: " + p.stdout + p.stderr

            work.append(("seeded", d, props, apply_fn))
    results = []
    with concurrent.futures.ThreadPoolExecutor(max_workers=args.jobs) as ex:
        futs = [ex.submit(run_one, k, n, p, f, args.tier, args.repo, args.all_props) for k, n, p, f in work]
        for fut in concurrent.futures.as_completed(futs):
            r = fut.result()
            results.append(r)
            caught = [p for p, c in r["checks"].items() if c["exit"] == 1]
            missed = [p for p in r["expected"] if r["checks"].get(p, {}).get("exit") != 1]
            print(f"{r['kind']:7s} {r['name']:45s} tests={r['tests']} caught={caught} MISSED={missed} {r.get('error', '')}", flush=True)
    results.sort(key=lambda r: (r["kind"], r["name"]))
    json.dump(results, open(args.out, "w"), indent=1)
    bad = [r["name"] for r in results if r.get("error") or any(r["checks"].get(p, {}).get("exit") != 1 for p in r["expected"])]
    print("not fully caught / errors:", bad)
    return 0


if __name__ == "__main__":
    sys.exit(main())
