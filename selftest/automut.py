#!/usr/bin/env python3
"""Systematic sensitivity analysis: operator-level mutants of the repository source, generated from the AST.

  selftest/automut.py list  [--files compute/reconciliation.py,...]            # count mutation points per file
  selftest/automut.py run   [--files ...] [--per-file 40] [--seed 0] [--jobs 3] [--tier quick] [--out selftest/AUTOMUT.json]
  selftest/automut.py show  ID                                                 # print the diff of one mutant

Every mutant is one small change (comparison / arithmetic / boolean operator, constant, swapped call arguments,
look-alike identifier, deleted statement, negated condition) applied to a scratch copy outside /repo and /verif.
A mutant the repository's own 55 tests already kill is recorded and dropped.  For the others the checks mapped to
the mutated file are run (quick tier) until one reports a violation.  Survivors are listed for triage: each is either
equivalent (no observable change), outside every given property, or a blind spot of a monitor/workload to be
strengthened.  Nothing here decides a property; it measures whether the monitors fire."""
import argparse
import ast
import concurrent.futures
import copy
import difflib
import hashlib
import json
import os
import random
import shutil
import subprocess
import sys
import tempfile
import time

HERE = os.path.dirname(os.path.dirname(os.path.abspath(__file__)))

FILE_PROPS = {
    "compute/reconciliation.py": ["C01", "C05", "C07", "C04", "C09", "C10", "C12"],
    "compute/exhaustive.py": ["C01", "C05"],
    "compute/super_reconciliation.py": ["C02", "C05", "C04", "C08", "C10", "C09", "C12"],
    "compute/unordered_super_reconciliation.py": ["C03", "C05", "C04", "C08", "C10", "C09", "C12"],
    "model/reconciliation.py": ["C06", "C11", "C12", "C08", "C04", "C01", "C02", "C03"],
    "model/synteny.py": ["C11", "C12", "C09", "C02"],
    "model/tree_mapping.py": ["C11", "C12"],
    "utils/dynamic_programming.py": ["C16", "C05", "C01"],
    "utils/trees.py": ["C17", "C20", "C08", "C07"],
    "utils/range_min_query.py": ["C17"],
    "utils/subsequences.py": ["C18", "C02"],
    "utils/toposort.py": ["C19", "C02"],
    "utils/disjoint_set.py": ["C20"],
    "utils/text.py": ["C15"],
    "utils/tex.py": ["C15", "C13"],
    "utils/geometry.py": ["C14", "C13"],
    "render/layout.py": ["C13", "C14", "C15"],
    "render/tikz.py": ["C13", "C15", "C14"],
    "render/model.py": ["C13", "C14", "C15"],
    "cli/reconcile.py": ["C12", "C06"],
    "cli/draw.py": ["C12"],
    "cli/util.py": ["C12"],
}

CMP = {ast.Lt: ast.LtE, ast.LtE: ast.Lt, ast.Gt: ast.GtE, ast.GtE: ast.Gt, ast.Eq: ast.NotEq, ast.NotEq: ast.Eq,
       ast.Is: ast.IsNot, ast.IsNot: ast.Is, ast.In: ast.NotIn, ast.NotIn: ast.In}
BIN = {ast.Add: ast.Sub, ast.Sub: ast.Add, ast.Mult: ast.Add, ast.BitOr: ast.BitAnd, ast.BitAnd: ast.BitOr,
       ast.LShift: ast.RShift, ast.RShift: ast.LShift, ast.FloorDiv: ast.Mult, ast.Div: ast.Mult}
NAMES = {}
for a, b in [("left", "right"), ("LEFT", "RIGHT"), ("floss_cost", "sloss_cost"), ("FULL_LOSS", "SEGMENTAL_LOSS"),
             ("DUPLICATION", "HORIZONTAL_TRANSFER"), ("SPECIATION", "DUPLICATION"), ("width", "height"), ("x", "y"), ("w", "h"),
             ("is_ancestor_of", "is_strict_ancestor_of"), ("min", "max"), ("top", "bottom"),
             ("left_node", "right_node"), ("left_object", "right_object"), ("left_species", "right_species"),
             ("left_gene", "right_gene"), ("ALL", "ANY"), ("MIN", "MAX"), ("dup_cost", "hgt_cost"), ("start", "stop"),
             ("parent", "child"), ("VERTICAL", "HORIZONTAL"), ("any", "all"), ("append", "appendleft")]:
    NAMES[a] = b
    NAMES.setdefault(b, a)


def points(tree):
    """Yield (node_index, kind, sub) for every applicable mutation, in a deterministic order."""
    out = []
    in_ann = set()
    for node in ast.walk(tree):
        for f in ("annotation", "returns"):
            a = getattr(node, f, None)
            if a is not None:
                in_ann.update(id(n) for n in ast.walk(a))
    # progress-bar plumbing (keyword arguments of tqdm(...), print(..., file=sys.stderr) messages) is not behaviour
    for node in ast.walk(tree):
        if isinstance(node, ast.Call) and isinstance(node.func, ast.Name) and node.func.id == "tqdm":
            for kw in node.keywords:
                in_ann.update(id(n) for n in ast.walk(kw.value))
    for i, node in enumerate(ast.walk(tree)):
        if id(node) in in_ann:
            continue
        if isinstance(node, ast.Compare):
            for j, op in enumerate(node.ops):
                if type(op) in CMP:
                    out.append((i, "cmp", j))
        elif isinstance(node, ast.BinOp) and type(node.op) in BIN:
            if not (isinstance(node.op, (ast.Add, ast.Mult)) and isinstance(node.left, ast.Constant) and isinstance(node.left.value, str)):
                out.append((i, "bin", 0))
        elif isinstance(node, ast.AugAssign) and type(node.op) in BIN:
            out.append((i, "aug", 0))
            out.append((i, "delstmt", 0))
        elif isinstance(node, ast.BoolOp):
            out.append((i, "bool", 0))
        elif isinstance(node, ast.UnaryOp) and isinstance(node.op, (ast.Not, ast.USub)):
            out.append((i, "unary", 0))
        elif isinstance(node, ast.Constant) and not isinstance(node.value, (str, bytes)) and node.value is not None and node.value is not Ellipsis:
            if isinstance(node.value, bool):
                out.append((i, "const", "flip"))
            elif isinstance(node.value, (int, float)):
                out.append((i, "const", "+1"))
                if node.value not in (0,):
                    out.append((i, "const", "-1"))
        elif isinstance(node, ast.Call):
            if len(node.args) >= 2 and not any(isinstance(a, ast.Starred) for a in node.args[:2]):
                if ast.dump(node.args[0]) != ast.dump(node.args[1]):
                    out.append((i, "swapargs", 0))
        elif isinstance(node, ast.Name) and node.id in NAMES and isinstance(node.ctx, ast.Load):
            out.append((i, "name", 0))
        elif isinstance(node, ast.Attribute) and node.attr in NAMES and isinstance(node.ctx, ast.Load):
            out.append((i, "attr", 0))
        elif isinstance(node, ast.If) or isinstance(node, ast.While) or isinstance(node, ast.IfExp):
            out.append((i, "negcond", 0))
        elif isinstance(node, ast.Expr) and isinstance(node.value, ast.Call):
            out.append((i, "delstmt", 0))
        elif isinstance(node, (ast.Continue, ast.Break)):
            out.append((i, "delstmt", 0))
        if isinstance(node, ast.Subscript) and isinstance(node.slice, ast.Slice):
            pass
    return out


def apply(tree, point):
    """Return (new_tree, lineno, description) with the mutation applied to a deep copy."""
    t = copy.deepcopy(tree)
    i, kind, sub = point
    node = list(ast.walk(t))[i]
    line = getattr(node, "lineno", 0)
    before = ast.unparse(node)[:100]
    if kind == "cmp":
        node.ops[sub] = CMP[type(node.ops[sub])]()
    elif kind in ("bin", "aug"):
        node.op = BIN[type(node.op)]()
    elif kind == "bool":
        node.op = ast.Or() if isinstance(node.op, ast.And) else ast.And()
    elif kind == "unary":
        parent_replace(t, node, node.operand)
    elif kind == "const":
        if sub == "flip":
            node.value = not node.value
        elif sub == "+1":
            node.value = node.value + 1
        else:
            node.value = node.value - 1
    elif kind == "swapargs":
        node.args[0], node.args[1] = node.args[1], node.args[0]
    elif kind == "name":
        node.id = NAMES[node.id]
    elif kind == "attr":
        node.attr = NAMES[node.attr]
    elif kind == "negcond":
        node.test = ast.UnaryOp(op=ast.Not(), operand=node.test)
    elif kind == "delstmt":
        parent_replace(t, node, ast.Pass())
    ast.fix_missing_locations(t)
    after = "pass" if kind == "delstmt" else (ast.unparse(node)[:100] if kind != "unary" else ast.unparse(node.operand)[:100])
    return t, line, f"{kind}: `{before}` -> `{after}`"


def parent_replace(tree, old, new):
    for p in ast.walk(tree):
        for field, val in ast.iter_fields(p):
            if val is old:
                setattr(p, field, new)
                return
            if isinstance(val, list):
                for k, v in enumerate(val):
                    if v is old:
                        val[k] = new
                        return


def src_root(repo):
    return os.path.join(repo, "src", "superrec2")


def all_mutants(repo, files):
    res = []
    for f in files:
        path = os.path.join(src_root(repo), f)
        src = open(path).read()
        tree = ast.parse(src)
        base = ast.unparse(tree)
        for p in points(tree):
            mid = hashlib.sha1(f"{f}:{p}".encode()).hexdigest()[:10]
            res.append({"id": mid, "file": f, "point": list(p)})
    return res


def build(repo, m):
    """Source text of the mutated file (whole module unparsed; comments are lost, semantics kept)."""
    path = os.path.join(src_root(repo), m["file"])
    tree = ast.parse(open(path).read())
    t, line, desc = apply(tree, tuple(m["point"]))
    return ast.unparse(t) + "\n", ast.unparse(tree) + "\n", line, desc


def run_one(repo, m, tier, seed, nproc):
    t0 = time.time()
    res = dict(m)
    try:
        new, base, line, desc = build(repo, m)
    except Exception as exc:  # noqa: BLE001
        res["error"] = f"build: {exc}"
        return res
    res["line"], res["desc"] = line, desc
    if new == base:
        res["status"] = "identical"
        return res
    try:
        compile(new, m["file"], "exec")
    except SyntaxError as exc:
        res["status"] = "syntax"
        return res
    tmp = tempfile.mkdtemp(prefix="rv-automut-", dir=os.environ.get("VERIF_TMP", "/tmp"))
    cp = os.path.join(tmp, "repo")
    try:
        shutil.copytree(repo, cp, ignore=shutil.ignore_patterns(".git", "__pycache__", "*.pyc", "data"))
        if os.path.isdir(os.path.join(repo, "data")):
            shutil.copytree(os.path.join(repo, "data"), os.path.join(cp, "data"))
        open(os.path.join(src_root(cp), m["file"]), "w").write(new)
        env = dict(os.environ, PYTHONPATH=os.path.join(cp, "src"), TQDM_DISABLE="1", PYTHONDONTWRITEBYTECODE="1")
        try:
            t = subprocess.run(
                ["/venv/bin/python", "-B", "-m", "pytest", "-q", "-x", "-p", "no:cacheprovider", "--timeout=120",
                 "--deselect", "tests/render/test_draw.py::test_fixtures", "--deselect", "tests/utils/test_tex.py::test_measure"],
                cwd=cp, env=env, capture_output=True, text=True, timeout=900)
            tests_ok = t.returncode == 0
        except subprocess.TimeoutExpired:
            tests_ok = False
        res["tests"] = "pass" if tests_ok else "fail"
        if not tests_ok:
            res["status"] = "killed_by_tests"
            return res
        res["checks"] = {}
        res["status"] = "survived"
        for prop in FILE_PROPS.get(m["file"], []):
            envc = dict(os.environ, VERIF_REPO=cp, VERIF_REPLAYS=os.path.join(tmp, "replays"), VERIF_SEED=str(seed), VERIF_NPROC=str(nproc))
            c = subprocess.run([os.path.join(HERE, "check"), prop, "--tier", tier, "--no-evidence"], env=envc, capture_output=True, text=True)
            mons = sorted({l.split("monitor=")[1].split(":")[0] for l in c.stdout.splitlines() if l.strip().startswith("monitor=")})
            res["checks"][prop] = {"exit": c.returncode, "monitors": mons}
            if c.returncode == 1:
                res["status"] = "caught"
                res["caught_by"] = prop
                break
            if c.returncode == 2:
                res["checks"][prop]["why"] = [l[:200] for l in c.stdout.splitlines() if l.startswith("INCONCLUSIVE")][:2]
        if res["status"] == "survived" and any(c["exit"] == 2 for c in res["checks"].values()):
            res["status"] = "inconclusive"
    finally:
        shutil.rmtree(tmp, ignore_errors=True)
    res["wall_s"] = round(time.time() - t0, 1)
    return res


def main():
    ap = argparse.ArgumentParser()
    ap.add_argument("cmd", choices=["list", "run", "show"])
    ap.add_argument("ident", nargs="?")
    ap.add_argument("--files", default="")
    ap.add_argument("--per-file", type=int, default=40)
    ap.add_argument("--seed", type=int, default=0)
    ap.add_argument("--jobs", type=int, default=3)
    ap.add_argument("--nproc", type=int, default=16)
    ap.add_argument("--tier", default="quick")
    ap.add_argument("--repo", default="/repo")
    ap.add_argument("--out", default=os.path.join(HERE, "selftest", "AUTOMUT.json"))
    ap.add_argument("--kinds", default="")
    args = ap.parse_args()
    files = [f for f in args.files.split(",") if f] or sorted(FILE_PROPS)
    muts = all_mutants(args.repo, files)
    if args.kinds:
        ks = set(args.kinds.split(","))
        muts = [m for m in muts if m["point"][1] in ks]
    if args.cmd == "list":
        by = {}
        for m in muts:
            by.setdefault(m["file"], {}).setdefault(m["point"][1], 0)
            by[m["file"]][m["point"][1]] += 1
        for f, d in by.items():
            print(f, sum(d.values()), d)
        print("total", len(muts))
        return 0
    if args.cmd == "show":
        m = next(x for x in all_mutants(args.repo, sorted(FILE_PROPS)) if x["id"] == args.ident)
        new, base, line, desc = build(args.repo, m)
        print(m["file"], "line", line, desc)
        print("".join(difflib.unified_diff(base.splitlines(True), new.splitlines(True), m["file"], m["file"] + " (mutant)", n=4)))
        return 0
    done = {}
    if os.path.exists(args.out):
        for r in json.load(open(args.out)):
            done[r["id"]] = r
    rng = random.Random(args.seed)
    chosen = []
    for f in files:
        fm = [m for m in muts if m["file"] == f and m["id"] not in done]
        rng.shuffle(fm)
        chosen += fm[: args.per_file]
    print(f"{len(muts)} mutation points, {len(done)} already done, running {len(chosen)}", flush=True)
    results = list(done.values())
    with concurrent.futures.ThreadPoolExecutor(max_workers=args.jobs) as ex:
        futs = [ex.submit(run_one, args.repo, m, args.tier, 0, args.nproc) for m in chosen]
        for k, fut in enumerate(concurrent.futures.as_completed(futs)):
            r = fut.result()
            results.append(r)
            print(f"[{k + 1}/{len(chosen)}] {r.get('status')} {r['file']}:{r.get('line')} {r.get('desc')} {r.get('caught_by', '')}", flush=True)
            if k % 10 == 9:
                json.dump(results, open(args.out, "w"), indent=1)
    json.dump(results, open(args.out, "w"), indent=1)
    st = {}
    for r in results:
        st[r.get("status", "error")] = st.get(r.get("status", "error"), 0) + 1
    print(st)
    return 0


if __name__ == "__main__":
    sys.exit(main())
