#!/usr/bin/env python3
"""Sensitivity self-test: apply one change to a scratch copy of the repository and run checks on it.

  selftest/mutant.py --patch FILE [--props C01,C05] [--tier quick] [--tests] [--reverse]
  selftest/mutant.py --revert-commit SHA --props C01

The copy lives outside /repo and /verif and is removed afterwards.  Exit status 0 when every
listed check reported a violation (exit 1) on the mutant.
"""
import argparse
import json
import os
import shutil
import subprocess
import sys
import tempfile

HERE = os.path.dirname(os.path.dirname(os.path.abspath(__file__)))


def main():
    ap = argparse.ArgumentParser()
    ap.add_argument("--patch")
    ap.add_argument("--revert-commit")
    ap.add_argument("--reverse", action="store_true")
    ap.add_argument("--props", default="")
    ap.add_argument("--tier", default="quick")
    ap.add_argument("--tests", action="store_true", help="also run the repository's own test suite on the copy")
    ap.add_argument("--repo", default="/repo")
    ap.add_argument("--seed", default="0")
    args = ap.parse_args()
    tmp = tempfile.mkdtemp(prefix="rv-mutant-", dir=os.environ.get("VERIF_TMP", "/tmp"))
    copy = os.path.join(tmp, "repo")
    try:
        shutil.copytree(args.repo, copy, ignore=shutil.ignore_patterns(".git", "__pycache__", "*.pyc"))
        if args.revert_commit:
            diff = subprocess.run(["git", "-C", args.repo, "show", "--format=", args.revert_commit], capture_output=True, text=True, check=True).stdout
            p = subprocess.run(["patch", "-p1", "-R", "-s"], input=diff, text=True, cwd=copy, capture_output=True)
        else:
            diff = open(args.patch).read()
            p = subprocess.run(["patch", "-p1", "-s"] + (["-R"] if args.reverse else []), input=diff, text=True, cwd=copy, capture_output=True)
        if p.returncode != 0:
            print("PATCH FAILED", p.stdout, p.stderr)
            return 3
        result = {"tests": None, "checks": {}}
        if args.tests:
            env = dict(os.environ, PYTHONPATH=os.path.join(copy, "src"), TQDM_DISABLE="1")
            t = subprocess.run(
                ["/venv/bin/python", "-m", "pytest", "-q", "-p", "no:cacheprovider", "--timeout=900", "-x",
                 "--deselect", "tests/render/test_draw.py::test_fixtures", "--deselect", "tests/utils/test_tex.py::test_measure"],
                cwd=copy, env=env, capture_output=True, text=True,
            )
            result["tests"] = t.returncode
            print("repo tests on mutant:", "PASS" if t.returncode == 0 else "FAIL", t.stdout.strip().splitlines()[-1:] )
        ok = True
        for prop in [x for x in args.props.split(",") if x]:
            env = dict(os.environ, VERIF_REPO=copy, VERIF_SEED=args.seed)
            c = subprocess.run([os.path.join(HERE, "check"), prop, "--tier", args.tier, "--no-evidence"], env=env, capture_output=True, text=True)
            result["checks"][prop] = c.returncode
            lines = [l for l in c.stdout.splitlines() if l.startswith(("VIOLATION", "  monitor", "INCONCLUSIVE", prop))]
            print(f"--- {prop}: exit {c.returncode}")
            print("\n".join(lines[:7]))
            if c.returncode not in (0, 1, 2):
                print(c.stderr[-2000:])
            ok &= c.returncode == 1
        print("RESULT", json.dumps(result))
        return 0 if ok else 1
    finally:
        shutil.rmtree(tmp, ignore_errors=True)


if __name__ == "__main__":
    sys.exit(main())
