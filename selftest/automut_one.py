#!/usr/bin/env python3
"""Re-run the checks on ONE mutant of selftest/automut.py:  selftest/automut_one.py <id> [Cxx,Cyy]"""
import json, os, sys
sys.path.insert(0, os.path.dirname(os.path.abspath(__file__)))
import automut
m = next(x for x in automut.all_mutants("/repo", sorted(automut.FILE_PROPS)) if x["id"] == sys.argv[1])
if len(sys.argv) > 2:
    automut.FILE_PROPS[m["file"]] = sys.argv[2].split(",")
r = automut.run_one("/repo", m, "quick", 0, 16)
print(json.dumps({k: r.get(k) for k in ("file", "line", "desc", "status", "caught_by", "checks")}, indent=1)[:1500])
