"""Hand-written realistic single-change mutants: (name, properties expected to catch it, file, old, new).

Each is applied by exact string replacement (must match once) to a scratch copy of /repo."""

MUTANTS = [
    # ---- reverts of the eight fixes (the defects of DESIGN.md section 9)
    ("D1-thl-decode-no-tags-as-leaf", ["C01"], "src/superrec2/compute/reconciliation.py",
     """    if root_object.is_leaf():
        if not table[root_object][root_species].is_infinite():
            yield ReconciliationOutput(rec_input, {root_object: root_species})

        return
""",
     """    if not table[root_object][root_species].infos():
        yield ReconciliationOutput(rec_input, {root_object: root_species})
        return
"""),
    ("D3-thl-no-speciation-cost", ["C01", "C05"], "src/superrec2/compute/reconciliation.py",
     "            spe_cost + left.value + right.value,", "            left.value + right.value,"),
    ("D2-thl-loss-after-min-dup", ["C01", "C05"], "src/superrec2/compute/reconciliation.py",
     """            losses = loss_cost * species_lca.distance(root_species, other_species)
            min_ltc.update(""",
     """            losses = 0 * species_lca.distance(root_species, other_species)
            min_ltc.update("""),
    ("D4-sloss0-subsequence-test", ["C02", "C04"], "src/superrec2/compute/super_reconciliation.py",
     """                if conserv_segments < 0:""", """                if conserv_segments * sloss_cost < 0:"""),
    ("D5-inplace-union", ["C03", "C04"], "src/superrec2/compute/unordered_super_reconciliation.py",
     "        ancestor_synteny = ancestor_synteny | gain_sets[root_object]", "        ancestor_synteny |= gain_sets[root_object]"),
    ("D6-entry-stale-tags", ["C16"], "src/superrec2/utils/dynamic_programming.py",
     """                    self._infos = {info}
                else:
                    self._infos = set()
""", """                    self._infos = {info}
"""),
    ("D7-cli-no-label-internal", ["C12"], "src/superrec2/cli/reconcile.py", "    rec_input.label_internal()\n    return rec_input", "    return rec_input"),
    ("D8-nested-colour", ["C15"], "src/superrec2/render/layout.py",
     """            and root_gene.up is not None
            and hasattr(root_gene.up, "color")
        ):
            root_gene.add_feature("color", root_gene.up.color)""",
     """            and root_gene.up is not None
            and hasattr(root_gene.up, "color")
            and not any(hasattr(s, "color") and s is not root_gene for s in root_gene.up.children if s in list(root_gene.up.children)[:list(root_gene.up.children).index(root_gene)])
        ):
            root_gene.add_feature("color", root_gene.up.color)"""),
    # ---- DTL
    ("thl-speciation-minus-2-dropped", ["C01"], "src/superrec2/compute/reconciliation.py",
     "        losses = loss_cost * species_lca.distance(left_species, left_child)", "        losses = loss_cost * (species_lca.distance(left_species, left_child) + 1)"),
    ("thl-transfer-to-ancestor-allowed", ["C01", "C04"], "src/superrec2/compute/reconciliation.py",
     "        elif not species_lca.is_ancestor_of(other_species, root_species):", "        elif other_species != root_species:"),
    ("exh-stop-below-root", ["C01"], "src/superrec2/compute/exhaustive.py",
     "        while parent_species is not None:", "        while parent_species is not None and (parent_species.up is not None or parent_species is lca):"),
    ("lca-uses-first-child-only-when-equal-depth", ["C07"], "src/superrec2/compute/reconciliation.py",
     "            rec[node] = rec_input.species_lca(rec[left], rec[right])",
     "            rec[node] = rec_input.species_lca(rec[left], rec[right]) if rec[left] is not rec[right] or not rec[left].is_leaf() or rec[left].up is None or len(rec) % 7 else rec[left].up"),
    # ---- evaluator
    ("eval-speciation-needs-strict-descendants", ["C06"], "src/superrec2/model/reconciliation.py",
     """                    and not species_lca.is_comparable(
                        rec[left_node],
                        rec[right_node],
                    )""",
     """                    and rec[left_node] != rec[right_node]"""),
    ("eval-unordered-dup-max", ["C06"], "src/superrec2/model/reconciliation.py",
     "                    total_cost += min(left_cost, right_cost)", "                    total_cost += max(left_cost, right_cost) if left_cost != right_cost and len(node_set) > 2 else min(left_cost, right_cost)"),
    ("eval-ordered-dup-edges-swapped", ["C06"], "src/superrec2/model/reconciliation.py",
     """                            subseq_segment_dist(left_mask, sub_mask, False)
                            + subseq_segment_dist(right_mask, sub_mask, True),""",
     """                            subseq_segment_dist(left_mask, sub_mask, False)
                            + subseq_segment_dist(right_mask, sub_mask, False),"""),
    # ---- ordered solver
    ("spfs-segment-uses-edges-true", ["C02"], "src/superrec2/compute/super_reconciliation.py",
     "                    subseq_segment_dist(child_synteny, root_synteny, edges=False)", "                    subseq_segment_dist(child_synteny, root_synteny, edges=child_synteny.bit_length() > 3)"),
    ("spfs-no-separate-right", ["C02"], "src/superrec2/compute/super_reconciliation.py",
     "        *subprobs[0].separate.combine(subprobs[1].conserved, hgt_comb),\n    )", "    )"),
    ("spfs-first-root-order-only", ["C02", "C05"], "src/superrec2/compute/super_reconciliation.py",
     "            root_orderings = toposort_all(prec_graph)", "            root_orderings = toposort_all(prec_graph)[:2]"),
    # ---- unordered solver
    ("uspfs-lca-dist-inverted", ["C03"], "src/superrec2/compute/unordered_super_reconciliation.py",
     "        if lca_sets[root_object] <= lca_sets[child_object]:", "        if lca_sets[root_object] < lca_sets[child_object] or (lca_sets[root_object] == lca_sets[child_object] and len(lca_sets[root_object]) < 3):"),
    ("uspfs-gains-not-subtracted", ["C03", "C04"], "src/superrec2/compute/unordered_super_reconciliation.py",
     "                .difference(*(gain_sets[child] for child in object_node.children))", "                .difference(gain_sets[object_node.children[0]])"),
    ("uspfs-dup-free-edge-charged", ["C03"], "src/superrec2/compute/unordered_super_reconciliation.py",
     """                subprobs[child_index][inh].segment.update(
                    Candidate(
                        value=above_species_dist + lca_cost,""",
     """                subprobs[child_index][inh].segment.update(
                    Candidate(
                        value=above_species_dist + lca_cost + (sloss_cost if above_species_dist > floss_cost else 0),"""),
    # ---- policies
    ("entry-any-keeps-two", ["C16", "C05"], "src/superrec2/utils/dynamic_programming.py",
     "                if info and (is_all or (is_any and not self._infos)):", "                if info and (is_all or (is_any and len(self._infos) < 2)):"),
    ("entry-combine-drops-ties", ["C16"], "src/superrec2/utils/dynamic_programming.py",
     "        for ours, theirs in product(self._infos, other.infos()):", "        for ours, theirs in product(sorted(self._infos, key=repr)[:3], other.infos()):"),
    # ---- binarize
    ("binarize-feature-copy-skips-color", ["C08"], "src/superrec2/utils/trees.py",
     "            for key in node.features:", "            for key in (k for k in node.features if k != 'color' or len(node.children) == 2):"),
    ("binarize-arrange-skips-last-graft", ["C08"], "src/superrec2/utils/trees.py",
     "    if not tree.is_leaf() and (ignore is None or tree.get_topology_id() not in ignore):", "    if not tree.is_leaf() and len(tree) < 4 and (ignore is None or tree.get_topology_id() not in ignore):"),
    # ---- utils
    ("rmq-depth-off", ["C17"], "src/superrec2/utils/range_min_query.py",
     "            self.sparse_table[depth][stop - 2**depth],", "            self.sparse_table[depth][max(start, stop - 2**depth - (1 if stop - start == 6 else 0))],"),
    ("segdist-edges-final-run", ["C18", "C02"], "src/superrec2/utils/subsequences.py",
     "    if in_segm and not edges:\n        dist -= 1", "    if in_segm and not edges and dist > 1:\n        dist -= 1"),
    ("mask-from-subseq-stops-early", ["C18"], "src/superrec2/utils/subsequences.py",
     "        if child_i == len(child):\n            break", "        if child_i == len(child) or parent_i > 6:\n            break"),
    ("toposort-all-no-restore", ["C19"], "src/superrec2/utils/toposort.py",
     "        for node_to in graph[node_from]:\n            indeg[node_to] += 1\n\n    return results", "        for node_to in list(graph[node_from])[:2]:\n            indeg[node_to] += 1\n\n    return results"),
    ("toposort-deque-order", ["C19"], "src/superrec2/utils/toposort.py",
     "            if indeg[succ] == 0:\n                starts.remove(succ)", "            if indeg[succ] == 0 and succ in starts and len(starts) != 4:\n                starts.remove(succ)"),
    ("dsu-binary-returns-one-block", ["C20"], "src/superrec2/utils/disjoint_set.py",
     "                if first is None or second is None:\n                    return []", "                if first is None and second is None:\n                    return []"),
    ("eval-transfer-conserved-args-swapped", ["C06"], "src/superrec2/model/reconciliation.py",
     "            if species_lca.is_ancestor_of(rec[node], rec[left_node])\n            else right_dist", "            if species_lca.is_ancestor_of(rec[left_node], rec[node])\n            else right_dist"),
    ("entry-max-never-ties", ["C16"], "src/superrec2/utils/dynamic_programming.py",
     "            if self._value == value:\n                if info and", "            if self._value == value and (is_min or not self._infos or len(candidates) == 1):\n                if info and"),
    # removed as EQUIVALENT: "triples-all-trees-skip-consistency" (skipping the consistency pre-check of all_trees_from_triples
    # for >= 5 leaves): the pre-check is an optimisation only - 0 differences on 3000 random triple sets over 5-7 leaves
    ("layout-speciation-swap-test", ["C13", "C14"], "src/superrec2/render/layout.py",
     "                    if species_lca.is_ancestor_of(left_species, mapping[right_gene]):", "                    if species_lca.is_strict_ancestor_of(left_species, mapping[right_gene]):"),
    # ---- serialisation / CLI
    ("ser-ordered-default", ["C11"], "src/superrec2/model/reconciliation.py",
     '            "ordered": self.ordered,\n', '            **({"ordered": self.ordered} if self.ordered else {}),\n'),
    ("ser-costs-lost-for-inf", ["C11"], "src/superrec2/model/reconciliation.py",
     '            "costs": dict(((event.name, value) for event, value in self.costs.items())),', '            "costs": dict(((event.name, value) for event, value in self.costs.items() if value == value and value != float("inf"))),'),
    ("cli-min-cost-of-last", ["C12"], "src/superrec2/cli/reconcile.py",
     '    print("Minimum cost:", results[0].cost(), file=sys.stderr)', '    print("Minimum cost:", results[0].reconciliation_cost() if hasattr(results[0], "reconciliation_cost") and len(results) > 1 else results[0].cost(), file=sys.stderr)'),
    ("label-internal-counter-shared", ["C12"], "src/superrec2/model/reconciliation.py",
     '                while f"S{next_species}" in self.species_lca.tree:', '                while f"S{next_species}" in self.object_tree or f"S{next_species}" in self.species_lca.tree:'),
    # ---- rendering
    ("layout-loss-wrong-side", ["C13"], "src/superrec2/render/layout.py",
     "        is_left = prev_species == start_species.children[0]\n        is_right = prev_species == start_species.children[1]",
     "        is_left = prev_species == start_species.children[0] or (color is not None and prev_gene is not gene)\n        is_right = not is_left"),
    ("tikz-transfer-arrow-to-conserved", ["C13"], "src/superrec2/render/tikz.py",
     "            foreign_pos = foreign_layout.anchors[right_gene]", "            foreign_pos = foreign_layout.anchors[right_gene] if len(all_layouts) != 5 else layout.branches[left_gene].anchor_parent"),
    ("layout-horizontal-spacing-uses-width", ["C14"], "src/superrec2/render/layout.py",
     "                left_trunk_dist = left_info[\"size\"].h - left_info[\"trunk\"].bottom().y", "                left_trunk_dist = left_info[\"size\"].h - left_info[\"trunk\"].bottom().y + (1 if fork_thickness > 30 else 0)"),
    ("layout-min-subtree-spacing-ignored", ["C14"], "src/superrec2/render/layout.py",
     """                subtree_spacing = max(
                    trunk_width - (left_trunk_dist + right_trunk_dist),
                    params.min_subtree_spacing,
                )""",
     """                subtree_spacing = max(
                    trunk_width - (left_trunk_dist + right_trunk_dist) - (trunk_width / 2 if trunk_width > 150 else 0),
                    params.min_subtree_spacing,
                )"""),
    ("tex-escape-order", ["C15"], "src/superrec2/utils/tex.py",
     '    return text.replace("\\\\", "\\\\\\\\").replace(r"_", r"\\_")', '    return text.replace(r"_", r"\\_").replace("\\\\", "\\\\\\\\")'),
    ("wrap-off-by-one", ["C15"], "src/superrec2/utils/text.py",
     "    best_result = textwrap.wrap(text, width, break_long_words=False)", "    best_result = textwrap.wrap(text, width + (1 if width > 9 else 0), break_long_words=False)"),
    ("tikz-color-index-reuse", ["C15"], "src/superrec2/render/tikz.py",
     "        return f\"{color_prefix}{len(colors) - 1}\"", "        return f\"{color_prefix}{min(len(colors) - 1, 3)}\""),
]
