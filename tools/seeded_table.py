#!/usr/bin/env python3
"""Regenerate the table of seeded changes in DESIGN.md (between the SEEDED-TABLE markers) from seeded/*/meta.json."""
import glob, json, os, re
HERE = os.path.dirname(os.path.dirname(os.path.abspath(__file__)))
rows = ["| seeded change | breaks | what was changed | needs | caught by (monitors) |", "|---|---|---|---|---|"]
def clip(t, n):
    t = " ".join(str(t).split()).replace("|", "/")
    return t if len(t) <= n else t[: n - 1] + "…"
for d in sorted(glob.glob(os.path.join(HERE, "seeded", "*", "meta.json"))):
    m = json.load(open(d))
    name = os.path.basename(os.path.dirname(d))
    res = m.get("check_results", {})
    caught = "; ".join(f"{k}: {', '.join(x.split('.')[1] for x in v['monitors']) or 'violation'}" for k, v in sorted(res.items()) if v["exit"] == 1)
    missed = ", ".join(k for k, v in sorted(res.items()) if v["exit"] != 1)
    cell = caught + (f" (not by the quick tier of {missed})" if missed else "")
    rows.append(f"| `seeded/{name}` | {m['property']} | {clip(m['summary'], 160)} | {clip(m['needs'], 160)} | {cell} |")
p = os.path.join(HERE, "DESIGN.md")
s = open(p).read()
block = "<!-- SEEDED-TABLE-BEGIN -->\n" + "\n".join(rows) + "\n<!-- SEEDED-TABLE-END -->"
if "<!-- SEEDED-TABLE-BEGIN -->" in s:
    s = re.sub(r"<!-- SEEDED-TABLE-BEGIN -->.*?<!-- SEEDED-TABLE-END -->", lambda _: block, s, flags=re.S)
else:
    i = s.index("| seeded change | breaks |")
    j = s.index("\n\n", i)
    s = s[:i] + block + s[j:]
open(p, "w").write(s)
print(len(rows) - 2, "rows")
