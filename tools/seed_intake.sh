#!/bin/sh
# tools/seed_intake.sh <Cxx> <name> <props,comma> : turn a sub-agent delivery in /tmp/out_<Cxx> (patch.diff, demo.py, notes.txt)
# into meta.json (summary/needs taken from notes.txt, to be refined by hand) and run selftest/seed_verify.py on it.
set -e
p=$1; name=$2; props=$3
cd "$(dirname "$0")/.."
/venv/bin/python - "$p" <<'PY'
import json, sys, os
p = sys.argv[1]
d = f"/tmp/out_{p}"
notes = open(os.path.join(d, "notes.txt")).read()
files = sorted({l[6:].strip() for l in open(os.path.join(d, "patch.diff")) if l.startswith("+++ b/")})
meta = {"property": p, "summary": ", ".join(files) + ": " + " ".join(notes.split())[:600], "needs": "see agent_notes (sub-agent's own description, kept verbatim)",
        "why_tests_pass": "see agent_notes", "agent_notes": notes, "round": "r10"}
json.dump(meta, open(os.path.join(d, "meta.json"), "w"), indent=1)
PY
/venv/bin/python selftest/seed_verify.py /tmp/out_$p --name "$name" --props "$props" > /tmp/sv_$p.log 2>&1 || true
jq -c '{confirmed, tests_with_change, demo_on_original, demo_on_changed, checks: (.checks|map_values({exit,monitors}))}' /tmp/sv_$p.log 2>/dev/null || tail -5 /tmp/sv_$p.log
