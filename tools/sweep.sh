#!/bin/sh
# usage: tools/sweep.sh "<seeds>" [tier] [props...]   - run checks over several seeds, print every non-clean run
cd "$(dirname "$0")/.." || exit 3
SEEDS="${1:-0 1 2}"; TIER="${2:-quick}"; shift 2 2>/dev/null
PROPS="${*:-C01 C02 C03 C04 C05 C06 C07 C08 C09 C10 C11 C12 C13 C14 C15 C16 C17 C18 C19 C20}"
bad=0
for s in $SEEDS; do for p in $PROPS; do
  out=$(PYTHONHASHSEED=0 VERIF_SEED=$s ./check $p --tier $TIER --no-evidence 2>&1); rc=$?
  line=$(echo "$out" | grep -E "^$p tier" | tail -1)
  if [ $rc -ne 0 ]; then bad=$((bad+1)); echo "!! rc=$rc $line"; echo "$out" | grep -E "VIOLATION|INCONCLUSIVE|monitor=" | head -6; else echo "ok $line"; fi
done; done
echo "non-clean runs: $bad"
