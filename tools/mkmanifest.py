#!/usr/bin/env python3
"""Regenerate MANIFEST.json from tools/checks.json (claimed checks) and properties.jsonl."""
import json, os, subprocess
HERE = os.path.dirname(os.path.dirname(os.path.abspath(__file__)))
props = [json.loads(l) for l in open(os.path.join(HERE, "properties.jsonl"))]
claimed = json.load(open(os.path.join(HERE, "tools", "checks.json")))
hooks_commits = []
man = {
    "version": 1,
    "setup_cmd": "true",
    "hooks": {
        "guard": "UDEM_LBIT_SUPERREC2_VERIF",
        "enable": "no source hooks: all instrumentation is attached from the harness at run time (module-attribute interposition in fresh /venv/bin/python -B processes with PYTHONPATH=/repo/src); the variable is exported to the shards for completeness",
        "baseline_off_cmd": "cd /repo && /venv/bin/python -m pytest -ra -q -p no:cacheprovider --timeout=900 --continue-on-collection-errors",
        "source_commits": hooks_commits,
        "add_only": True,
    },
    "engines": [{"name": "rv", "path": "rv/", "serves_properties": sorted(claimed), "kind_free_text": "runtime monitors: reference-model oracles, invariants at hooks, offline event-log checkers, mutation/determinism sanitizers, driven by bounded-exhaustive and seeded random workloads in fresh processes"}],
    "checks": [],
    "not_applicable": [],
    "notes": "Technique family: runtime monitoring. See DESIGN.md. Exit codes: 0 held on what was observed, 1 violation (VIOLATION line + replay file), 2 inconclusive (never on the unchanged tree).",
}
for p in props:
    pid = p["id"]
    if pid in claimed:
        c = claimed[pid]
        man["checks"].append({
            "property_id": pid,
            "quick_cmd": f"./check {pid} --tier quick",
            "thorough_cmd": f"./check {pid} --tier thorough",
            "evidence_file": f"evidence/{pid}.json",
            "replay_cmd_template": f"./check {pid} --replay {{path}}",
            "engine": "rv",
            "level_claimed": {"category": "exploration", "text": c["text"], "design_ref": f"DESIGN.md section 6, {pid}"},
            "level_note": c["note"],
            "technique": c["technique"],
        })
    else:
        man["not_applicable"].append({"property_id": pid, "reason": "check not built yet in this round (runtime monitoring applies; see DESIGN.md section 6)"})
json.dump(man, open(os.path.join(HERE, "MANIFEST.json"), "w"), indent=1)
print("claimed", len(man["checks"]), "not claimed", len(man["not_applicable"]))
