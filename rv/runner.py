"""Parent side: plan shards, run them in fresh processes, merge, write evidence."""
import argparse
import concurrent.futures
import hashlib
import importlib
import json
import os
import shutil
import subprocess
import sys
import tempfile
import time

HERE = os.path.dirname(os.path.dirname(os.path.abspath(__file__)))  # /verif
PY = os.environ.get("VERIF_PYTHON", "/venv/bin/python")
NPROC = int(os.environ.get("VERIF_NPROC", "16"))


AUXILIARY_FLOORS = ("mon.table_cells", "mon.sets", "mon.insitu")


def repo_dir():
    return os.environ.get("VERIF_REPO", "/repo")


def tree_id():
    repo = repo_dir()
    try:
        head = subprocess.run(
            ["git", "-C", repo, "rev-parse", "HEAD"], capture_output=True, text=True, timeout=20
        ).stdout.strip()
        diff = subprocess.run(
            ["git", "-C", repo, "diff", "HEAD", "--", "src"], capture_output=True, timeout=20
        ).stdout
        return {"repo": repo, "head": head, "diff_sha1": hashlib.sha1(diff).hexdigest()[:12], "dirty": bool(diff)}
    except Exception as exc:  # not a git checkout (scratch copy)
        h = hashlib.sha1()
        for root, _, files in sorted(os.walk(os.path.join(repo, "src"))):
            for f in sorted(files):
                if f.endswith(".py"):
                    h.update(open(os.path.join(root, f), "rb").read())
        return {"repo": repo, "head": None, "src_sha1": h.hexdigest()[:12]}


def executable_lines(path):
    """Line numbers that carry code, from the compiled code objects (docstring-only lines excluded by CPython)."""
    try:
        code = compile(open(path).read(), path, "exec")
    except (OSError, SyntaxError):
        return set()
    lines = set()
    stack = [code]
    while stack:
        c = stack.pop()
        for _, _, ln in c.co_lines():
            if ln is not None and ln > 0:
                lines.add(ln)
        stack.extend(k for k in c.co_consts if hasattr(k, "co_lines"))
    return lines


def child_env(hashseed, pycache):
    env = dict(os.environ)
    env["PYTHONPATH"] = os.pathsep.join([os.path.join(repo_dir(), "src"), HERE])
    env["PYTHONPYCACHEPREFIX"] = pycache
    env["PYTHONDONTWRITEBYTECODE"] = "1"
    env["TQDM_DISABLE"] = "1"
    env["PYTHONHASHSEED"] = str(hashseed)
    env["VERIF_REPO"] = repo_dir()
    env.setdefault("UDEM_LBIT_SUPERREC2_VERIF", "1")
    return env


def run_job(job, workdir, pycache, idx):
    jf = os.path.join(workdir, f"job{idx}.json")
    of = os.path.join(workdir, f"out{idx}.json")
    json.dump(job, open(jf, "w"))
    t0 = time.time()
    try:
        p = subprocess.run(
            [PY, "-B", "-m", "rv.worker", jf, of],
            cwd=HERE,
            env=child_env(job.get("hashseed", 0), pycache),
            capture_output=True,
            text=True,
            timeout=job["timeout"],
        )
    except subprocess.TimeoutExpired as exc:
        return {"ok": False, "timeout": True, "error": f"shard {idx} timed out after {job['timeout']}s",
                "stderr": (exc.stderr or b"")[-3000:].decode("utf8", "replace") if isinstance(exc.stderr, bytes) else str(exc.stderr)[-3000:]}
    if not os.path.exists(of):
        return {"ok": False, "error": f"shard {idx} died (exit {p.returncode})", "stderr": p.stderr[-4000:]}
    res = json.load(open(of))
    res["stderr_tail"] = p.stderr[-1500:]
    res["shard_wall"] = time.time() - t0
    return res


def load_known(prop):
    """known_findings.txt -> list of dicts for this property (never written at run time)."""
    path = os.path.join(HERE, "known_findings.txt")
    out = []
    if not os.path.exists(path):
        return out
    for line in open(path):
        line = line.strip()
        if not line.startswith("known:"):
            continue
        fields = dict(tok.split("=", 1) for tok in line.split()[1:] if "=" in tok)
        props = fields.get("property", "").split(",")
        if prop not in props:
            continue
        wit = json.load(open(os.path.join(HERE, fields["witness"])))
        text = line.split(fields["witness"], 1)[1].strip()
        out.append({"id": fields.get("id"), "witness": wit, "text": text, "witness_file": fields["witness"]})
    return out


def main(argv=None):
    ap = argparse.ArgumentParser()
    ap.add_argument("prop")
    ap.add_argument("--tier", default=os.environ.get("VERIF_TIER", "quick"), choices=["quick", "thorough"])
    ap.add_argument("--seed", type=int, default=int(os.environ.get("VERIF_SEED", "0")))
    ap.add_argument("--replay")
    ap.add_argument("--no-evidence", action="store_true")
    args = ap.parse_args(argv)
    prop, tier, seed = args.prop, args.tier, args.seed
    t0 = time.time()

    sys.path.insert(0, os.path.join(repo_dir(), "src"))
    sys.path.insert(1, HERE)
    mod = importlib.import_module(f"rv.props.{prop}")
    meta = mod.META

    workdir = tempfile.mkdtemp(prefix=f"rv-{prop}-", dir=os.environ.get("VERIF_TMP"))
    pycache = os.path.join(workdir, "pyc")
    os.makedirs(pycache)
    try:
        jobs = []
        if args.replay:
            rp = json.load(open(args.replay))
            hashseeds = [0, 1, 2, 3] if rp["case"].get("kind") == "determinism" else [rp.get("hashseed", 0)]
            for hs in hashseeds:
                jobs.append({"prop": prop, "tier": tier, "seed": seed, "mode": "replay", "case": rp["case"], "timeout": 600, "hashseed": hs})
        else:
            specs = mod.plan(tier, seed)
            for i, spec in enumerate(specs):
                tmo = spec.pop("_timeout", meta.get("timeout", {}).get(tier, 600 if tier == "quick" else 7200))
                jobs.append(
                    {
                        "prop": prop, "tier": tier, "seed": seed, "shard": i, "mode": "run", "spec": spec,
                        # string hashing (set/dict iteration order of names) differs between shards; a violation
                        # records the seed of its shard and is replayed under the same one
                        "timeout": tmo, "hashseed": spec.pop("_hashseed", i % 4),
                        "budget_s": spec.pop("_budget_s", None), "canaries": i == 0 or spec.get("_canaries", False),
                    }
                )
            for kf in load_known(prop):
                jobs.append({"prop": prop, "tier": tier, "seed": seed, "mode": "known", "finding": kf, "timeout": 600, "shard": 9000 + len(jobs)})
        results = [None] * len(jobs)
        with concurrent.futures.ThreadPoolExecutor(max_workers=NPROC) as ex:
            futs = {ex.submit(run_job, job, workdir, pycache, i): i for i, job in enumerate(jobs)}
            for fut in concurrent.futures.as_completed(futs):
                results[futs[fut]] = fut.result()
    finally:
        shutil.rmtree(workdir, ignore_errors=True)

    # ---- merge
    counters, sigs, samples, violations, known, notes, inconcl = {}, set(), [], [], [], [], []
    for i, r in enumerate(results):
        if os.environ.get("VERIF_SHARD_TIMES"):
            print(f"  shard {i} {jobs[i].get('spec', {}).get('kind', jobs[i].get('mode'))} wall={r.get('shard_wall', 0):.1f}s", flush=True)
        if not r.get("ok"):
            inconcl.append(r.get("error", "shard failed")[-1500:] + " | " + str(r.get("stderr", ""))[-800:])
        for k, v in r.get("counters", {}).items():
            counters[k] = counters.get(k, 0) + v
        sigs.update(r.get("sigs", []))
        for s in r.get("samples", []):
            if len(samples) < 6:
                samples.append(s)
        for v in r.get("violations", []):
            v.setdefault("hashseed", jobs[i].get("hashseed", 0))
            violations.append(v)
        known.extend(r.get("known", []))
        notes.extend(r.get("notes", []))
        inconcl.extend(r.get("inconclusive", []))

    # ---- reach: executed / executable statements per anchored source file
    reach = {}
    for r in results:
        for fn, lines in (r.get("reach") or {}).items():
            reach.setdefault(fn, set()).update(lines)
    reach_report = {}
    anchors = []
    try:
        for line in open(os.path.join(HERE, "properties.jsonl")):
            pj = json.loads(line)
            if pj["id"] == prop:
                anchors = pj["anchors"]["files"]
    except OSError:
        pass
    src_root = os.path.join(repo_dir(), "src", "superrec2")
    anchored_files = []
    for a in anchors:
        a = a.replace("src/superrec2/", "")
        full = os.path.join(src_root, a)
        if os.path.isdir(full):
            anchored_files += [os.path.join(a, f) for f in sorted(os.listdir(full)) if f.endswith(".py") and f != "__init__.py"]
        elif os.path.exists(full):
            anchored_files.append(a)
    for fn in anchored_files:
        total = executable_lines(os.path.join(src_root, fn))
        hit = reach.get(fn.replace("/", os.sep), set()) & total
        reach_report[fn] = {"executed": len(hit), "executable": len(total)}
    unreached = [fn for fn, v in reach_report.items() if v["executable"] and v["executed"] == 0]

    # ---- cross-process determinism: same key must give the same digest in every shard
    dig = {}
    for i, r in enumerate(results):
        for key, d in r.get("digests", {}).items():
            dig.setdefault(key, []).append((jobs[i].get("hashseed", 0), d))
    ncross = 0
    for key, lst in dig.items():
        if len(lst) > 1:
            ncross += 1
            if len({d["digest"] for _, d in lst}) > 1:
                counters["violations"] = counters.get("violations", 0) + 1
                violations.append({"property": prop, "monitor": f"{prop}.determinism", "msg": f"results differ between fresh processes (PYTHONHASHSEED {[h for h, _ in lst]}) for case {key}",
                                   "case": dict(lst[0][1]["case"], kind="determinism"), "details": {"digests": [d["digest"] for _, d in lst]}, "seed": seed, "shard": -1, "tier": tier})
    if dig:
        counters["mon.cross_process_cases"] = ncross

    if not args.replay:
        floors = meta.get("floors", {}).get(tier, {})
        for name, floor in floors.items():
            if counters.get(name, 0) < floor:
                if name.startswith(AUXILIARY_FLOORS):
                    # L1/L2 monitors hang on private names / import styles of the code under test: when a refactoring
                    # removes the attachment point they fall silent, the verdict then rests on the boundary monitors (L0)
                    notes.append(f"auxiliary monitor {name}={counters.get(name, 0)} below its floor {floor}: attachment point not reached; verdict rests on the boundary monitors")
                else:
                    inconcl.append(f"monitor counter {name}={counters.get(name, 0)} below floor {floor}")
        if len(sigs) < 2:
            inconcl.append(f"only {len(sigs)} distinct non-trivial cases observed")
        if reach and unreached and not meta.get("reach_optional"):
            inconcl.append(f"reach observer: no statement of anchored file(s) {unreached} was executed")

    # ---- report
    for line in sorted(set(known)):
        print(f"KNOWN-FINDING: property={prop} {line}")
    replay_paths = []
    seen = set()
    for v in violations:
        h = hashlib.sha1(json.dumps([v["monitor"], v["case"]], sort_keys=True).encode()).hexdigest()[:16]
        if h in seen:
            continue
        seen.add(h)
        if len(replay_paths) >= 10:
            continue
        d = os.path.join(os.environ.get("VERIF_REPLAYS", os.path.join(HERE, "replays")), prop)
        os.makedirs(d, exist_ok=True)
        path = os.path.join(d, f"{h}.json")
        json.dump(v, open(path, "w"), indent=1)
        replay_paths.append(path)
        print(f"VIOLATION property={prop} replay={path}")
        print(f"  monitor={v['monitor']}: {v['msg']}"[:600])
    nviol = counters.get("violations", 0)
    wall = time.time() - t0
    evaluations = counters.get("evaluations", 0)
    if not args.replay and not args.no_evidence:
        cov = {
            "evaluations": evaluations,
            "distinct_nontrivial": len(sigs),
            "rule": meta["rule"],
            "samples": samples,
            "exhaustive": bool(meta.get("exhaustive", {}).get(tier, False)),
            "monitors": {k: v for k, v in sorted(counters.items())},
            "shards": len(jobs),
            "tree_under_test": tree_id(),
            "reach_anchored_files": reach_report,
            "known_findings_replayed": sorted(set(known)),
            "inconclusive": inconcl[:10],
            "notes": sorted(set(notes))[:40],
        }
        if meta.get("space"):
            cov["enumerated_space"] = meta["space"].get(tier, "")
        ev = {
            "property_id": prop, "tier": tier, "seed": seed, "level": "exploration", "coverage": cov,
            "assumptions": meta.get("assumptions", []), "wall_s": round(wall, 2), "violations": nviol,
        }
        os.makedirs(os.path.join(HERE, "evidence"), exist_ok=True)
        json.dump(ev, open(os.path.join(HERE, "evidence", f"{prop}.json"), "w"), indent=1)
    if args.replay:
        print(f"replay: {len(violations)} violation(s) reproduced; counters={counters}")
    print(
        f"{prop} tier={tier} seed={seed}: evaluations={evaluations} distinct_nontrivial={len(sigs)} "
        f"violations={nviol} known={len(set(known))} inconclusive={len(inconcl)} wall={wall:.1f}s"
    )
    for m in inconcl[:8]:
        print(f"INCONCLUSIVE property={prop} reason={m}"[:1500])
    if violations:
        return 1
    if inconcl:
        return 2
    return 0


if __name__ == "__main__":
    sys.exit(main())
