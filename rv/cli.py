"""Drive the real command-line tool in a subprocess and read its output with harness-side parsers."""
import json
import math
import os
import subprocess
import sys
import tempfile

from rv.refmodel import newick
from rv.refmodel.trees import T


def cost_args(c):
    args = []
    for k in ("spe", "dup", "hgt", "floss", "sloss"):
        if k in c:
            v = c[k]
            args += [f"--cost-{k}", "float('inf')" if v in ("inf", math.inf) else str(v)]
    return args


def run_cli(argv, stdin=None, timeout=300, cwd=None):
    """python -m superrec2.cli <argv>; returns (status, stdout, stderr)."""
    env = dict(os.environ)
    env["TQDM_DISABLE"] = "1"
    p = subprocess.run([sys.executable, "-B", "-m", "superrec2.cli"] + argv, input=stdin, capture_output=True, text=True, timeout=timeout, env=env, cwd=cwd)
    return p.returncode, p.stdout, p.stderr


def reconcile(data, algo, policy="any", costs=None, timeout=300, use_stdio=False):
    """Run `reconcile`; returns dict(status, lines, stderr, min_cost_text)."""
    with tempfile.TemporaryDirectory(prefix="rvcli-") as tmp:
        inp = os.path.join(tmp, "in.json")
        outp = os.path.join(tmp, "out.json")
        json.dump(data, open(inp, "w"))
        argv = ["reconcile", "--input", inp, "--output", outp, algo, "--solutions", policy] + (cost_args(costs) if costs else [])
        status, stdout, stderr = run_cli(argv, timeout=timeout)
        text = open(outp).read() if os.path.exists(outp) else ""
    mc = None
    for line in stderr.splitlines():
        if line.startswith("Minimum cost:"):
            mc = line.split(":", 1)[1].strip()
    return {"status": status, "text": text, "stdout": stdout, "stderr": stderr, "min_cost_text": mc, "argv": argv[5:]}


def parse_min_cost(text):
    if text is None:
        return None
    if text in ("inf", "Infinity", "+inf"):
        return math.inf
    try:
        return int(text)
    except ValueError:
        try:
            return float(text)
        except ValueError:
            return text


def read_solution(obj):
    """Harness-side reading of one written JSON object: model trees from the Newick strings, mapping and
    syntenies by node NAME as written.  -> dict(G, S, m, lab, ordered, problems, names...)."""
    problems = []
    G = T(newick.parse(obj["input"]["object_tree"]))
    S = T(newick.parse(obj["input"]["species_tree"]))
    gn = {}
    for v in G.nodes:
        nm = G.name[v]
        if nm is None or nm == "" or nm == "NoName":
            problems.append(f"object node {v} has no name ({nm!r})")
        elif nm in gn:
            problems.append(f"object node name {nm!r} is used twice")
        else:
            gn[nm] = v
    sn = {}
    for v in S.nodes:
        nm = S.name[v]
        if nm is None or nm == "" or nm == "NoName":
            problems.append(f"species node {v} has no name ({nm!r})")
        elif nm in sn:
            problems.append(f"species node name {nm!r} is used twice")
        else:
            sn[nm] = v
    m = {}
    for k, val in obj.get("object_species", {}).items():
        if k not in gn or val not in sn:
            problems.append(f"mapping entry {k!r} -> {val!r} does not name nodes of the written trees")
        else:
            m[gn[k]] = sn[val]
    lab = None
    if "syntenies" in obj:
        lab = {}
        for k, val in obj["syntenies"].items():
            if k not in gn:
                problems.append(f"synteny entry {k!r} does not name a node of the written object tree")
            else:
                lab[gn[k]] = tuple(val)
    leafmap = {}
    for k, val in obj["input"].get("leaf_object_species", {}).items():
        if k in gn and val in sn:
            leafmap[gn[k]] = sn[val]
    leafsyn = None
    if "leaf_syntenies" in obj["input"]:
        leafsyn = {gn[k]: tuple(v) for k, v in obj["input"]["leaf_syntenies"].items() if k in gn}
    costs = None
    if "costs" in obj["input"]:
        cc = obj["input"]["costs"]
        costs = {"spe": cc.get("SPECIATION"), "dup": cc.get("DUPLICATION"), "hgt": cc.get("HORIZONTAL_TRANSFER"), "floss": cc.get("FULL_LOSS"), "sloss": cc.get("SEGMENTAL_LOSS")}
    return {"G": G, "S": S, "m": m, "lab": lab, "ordered": obj.get("ordered"), "problems": problems, "leafmap": leafmap, "leafsyn": leafsyn, "costs": costs, "gn": gn, "sn": sn}
