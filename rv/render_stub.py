"""Stub TeX measurer (no TeX engine exists in the sandbox) and a fake engine speaking the $$$w,h,d protocol."""
import hashlib


class Stub:
    def __init__(self, swap=False, lo=1.0, hi=100.0, zero_depth=False, salt="", bimodal=False):
        self.salt = salt
        self.bimodal = bimodal  # most nodes small, a few very wide and/or very tall (independently)
        self.swap = swap
        self.lo = lo
        self.hi = hi
        self.zero_depth = zero_depth
        self.calls = []

    def size_of(self, text):
        h = int(hashlib.md5((self.salt + text).encode()).hexdigest(), 16)
        span = self.hi - self.lo
        w = self.lo + (h % 9973) / 9973.0 * span
        ht = self.lo + ((h >> 40) % 9973) / 9973.0 * span
        if self.bimodal:
            fw, fh = (h % 9973) / 9973.0, ((h >> 40) % 9973) / 9973.0
            w = self.lo + (fw * 0.12 if (h >> 100) % 4 else 0.5 + fw * 0.5) * span
            ht = self.lo + (fh * 0.12 if (h >> 104) % 4 else 0.3 + fh * 0.7) * span
        d = 0.0 if self.zero_depth else ((h >> 80) % 100) / 100.0 * min(5.0, span)
        return round(w, 3), round(ht, 3), round(d, 3)

    def measure(self, texts, preamble=""):
        from superrec2.utils import tex

        out = []
        texts = list(texts)
        self.calls.append(texts)
        for t in texts:
            w, h, d = self.size_of(t)
            if self.swap:
                out.append(tex.MeasureBox(h + d, w, 0.0))
            else:
                out.append(tex.MeasureBox(w, h, d))
        return out


def install(stub):
    """Replace superrec2.utils.tex.measure; returns an undo function."""
    from superrec2.utils import tex

    orig = tex.measure
    tex.measure = stub.measure
    return lambda: setattr(tex, "measure", orig)


def install_fake_engine(stub):
    """Replace only tex_compile by a fake engine, so tex.measure's own source generation and log parsing run."""
    from superrec2.utils import tex
    from rv.refmodel.tikz import _group

    orig = tex.tex_compile
    seen = []

    def fake(source, dest=None):
        out = ["This is FakeTeX", "entering extended mode"]
        i = 0
        marker = "\\savebox{\\measurebox}"
        while True:
            i = source.find(marker, i)
            if i < 0:
                break
            content, j = _group(source, i + len(marker))
            seen.append(content)
            w, h, d = stub.size_of(content)
            out.append("(some noise) [1]")
            out.append(f"$$${w}pt,{h}pt,{d}pt")
            i = j
        out.append("No pages of output.")
        return "\n".join(out)

    tex.tex_compile = fake
    return (lambda: setattr(tex, "tex_compile", orig)), seen
