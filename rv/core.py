"""Shard-side context: counters, signatures, samples, violations."""
import hashlib
import json
import math
import os
import random
import time


def jsonable(x):
    """Plain-data conversion used for cases, samples and replay files."""
    if isinstance(x, float) and math.isinf(x):
        return "inf" if x > 0 else "-inf"
    if isinstance(x, (str, int, float, bool)) or x is None:
        return x
    if isinstance(x, dict):
        return {str(k): jsonable(v) for k, v in x.items()}
    if isinstance(x, (set, frozenset)):
        return sorted((jsonable(v) for v in x), key=repr)
    if isinstance(x, (list, tuple)):
        return [jsonable(v) for v in x]
    return repr(x)


def case_hash(case):
    return hashlib.sha1(json.dumps(jsonable(case), sort_keys=True).encode()).hexdigest()[:16]


class Inconclusive(Exception):
    pass


class SkipCase(BaseException):
    """One call of the code under test exceeded the per-call budget (time or memory): a resource limit of the harness,
    never an observation about the property.  The case is dropped and counted (``skipped_budget``)."""


def skippable(fn):
    """Decorator for per-case check functions ``fn(ctx, ...)``: a SkipCase raised below drops the case."""
    import functools

    @functools.wraps(fn)
    def wrapper(ctx, *a, **k):
        try:
            return fn(ctx, *a, **k)
        except SkipCase as exc:
            ctx.count("skipped_budget")
            if len(ctx.notes) < 20:
                ctx.notes.append(f"case dropped, per-call budget exceeded: {exc}")
            return None

    return wrapper


class Ctx:
    MAX_VIOL = 12

    def __init__(self, prop, tier, seed, shard=0):
        self.prop = prop
        self.tier = tier
        self.seed = seed
        self.shard = shard
        self.counters = {}
        self.sigs = set()
        self.samples = []
        self.violations = []
        self.known = []  # KNOWN-FINDING lines
        self.notes = []
        self.inconclusive = []
        self.digests = {}  # key -> {"digest": str, "case": case}: compared across shards by the parent
        self.t0 = time.time()
        self.deadline = None
        self._viol_keys = set()

    def rng(self, *salt):
        h = hashlib.sha256(repr((self.seed, self.prop, self.shard) + salt).encode()).digest()
        return random.Random(int.from_bytes(h[:8], "big"))

    def count(self, name, n=1):
        self.counters[name] = self.counters.get(name, 0) + n

    def sig(self, signature, nontrivial=True):
        """Record the abstract signature of a case; only non-trivial ones are counted."""
        if nontrivial:
            self.sigs.add(json.dumps(jsonable(signature), sort_keys=True))

    def sample(self, case, every=1, cap=4):
        if len(self.samples) < cap:
            self.samples.append(jsonable(case))

    def viol(self, monitor, case, msg, **details):
        """A deciding monitor rejected an observation."""
        key = (monitor, case_hash(case))
        if key in self._viol_keys:
            return
        self._viol_keys.add(key)
        self.count("violations")
        if len(self.violations) < self.MAX_VIOL:
            self.violations.append(
                {
                    "property": self.prop,
                    "monitor": monitor,
                    "msg": msg,
                    "case": jsonable(case),
                    "details": jsonable(details),
                    "seed": self.seed,
                    "shard": self.shard,
                    "tier": self.tier,
                }
            )

    def too_many(self):
        return len(self.violations) >= self.MAX_VIOL

    def out_of_time(self):
        return self.deadline is not None and time.time() > self.deadline

    def result(self):
        return {
            "counters": self.counters,
            "sigs": sorted(self.sigs),
            "samples": self.samples,
            "violations": self.violations,
            "known": self.known,
            "notes": self.notes,
            "inconclusive": self.inconclusive,
            "digests": self.digests,
            "wall_s": time.time() - self.t0,
        }


def parse_cost(c):
    """Cases store infinite costs as the string 'inf'."""
    out = {}
    for k, v in c.items():
        out[k] = math.inf if v in ("inf", "Infinity") else v
    return out


def known_mechanisms(prop):
    """Mechanism-keyed known findings listed for a property in known_findings.txt (token mechanism=<name>)."""
    here = os.path.dirname(os.path.dirname(os.path.abspath(__file__)))
    out = set()
    try:
        for line in open(os.path.join(here, "known_findings.txt")):
            if not line.startswith("known:"):
                continue
            fields = dict(tok.split("=", 1) for tok in line.split()[1:] if "=" in tok)
            if prop in fields.get("property", "").split(",") and "mechanism" in fields:
                out.add(fields["mechanism"])
    except OSError:
        pass
    return out
