"""Minimal independent Newick reader (names, branch lengths ignored, NHX comments kept)."""


class NewickError(Exception):
    pass


def parse(text):
    """-> nested structure accepted by refmodel.trees.T: leaf = name string or {"name", "ch": []},
    internal = {"name": str|None, "ch": [...], "color": str|None}."""
    s = text.strip()
    if not s.endswith(";"):
        raise NewickError("missing ';'")
    pos = [0]

    def peek():
        return s[pos[0]]

    def node():
        ch = []
        if peek() == "(":
            pos[0] += 1
            while True:
                ch.append(node())
                if peek() == ",":
                    pos[0] += 1
                    continue
                if peek() == ")":
                    pos[0] += 1
                    break
                raise NewickError(f"unexpected {peek()!r} at {pos[0]}")
        start = pos[0]
        while s[pos[0]] not in ",();[:":
            pos[0] += 1
        name = s[start : pos[0]]
        if peek() == ":":
            pos[0] += 1
            while s[pos[0]] not in ",();[":
                pos[0] += 1
        feats = {}
        if peek() == "[":
            end = s.index("]", pos[0])
            body = s[pos[0] + 1 : end]
            pos[0] = end + 1
            if body.startswith("&&NHX:"):
                for kv in body[6:].split(":"):
                    if "=" in kv:
                        k, v = kv.split("=", 1)
                        feats[k] = v
        d = {"name": name if name != "" else None, "ch": ch}
        if "color" in feats:
            d["color"] = feats["color"]
        if not ch and "color" not in feats:
            return name
        return d

    root = node()
    if peek() != ";":
        raise NewickError(f"trailing text at {pos[0]}")
    return root
