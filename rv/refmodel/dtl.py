"""R-EVENT / R-DTL: the documented event model, by definition.

Costs are dicts {"spe","dup","hgt","floss","sloss"} of ints, hgt may be math.inf.
Imports nothing from superrec2.
"""
import math

INF = math.inf


def event(S, s, l, r):
    """Event of a node mapped to s whose children are mapped to l and r."""
    if S.is_strict_anc(l, s) or S.is_strict_anc(r, s):
        return "INV"
    dl, dr = S.is_anc(s, l), S.is_anc(s, r)
    if dl and dr:
        if s == S.lca(l, r) and not S.comparable(l, r):
            return "SPE"
        return "DUP"
    if dl or dr:
        return "HGT"
    return "INV"


def losses(S, s, l, r, ev=None):
    """Number of full losses counted at a node (one per skipped species edge)."""
    ev = ev or event(S, s, l, r)
    if ev == "SPE":
        return S.dist(s, l) + S.dist(s, r) - 2
    if ev == "DUP":
        return S.dist(s, l) + S.dist(s, r)
    if ev == "HGT":
        return S.dist(s, l) if S.is_anc(s, l) else S.dist(s, r)
    return None


def node_cost(S, s, l, r, c):
    ev = event(S, s, l, r)
    if ev == "INV":
        return INF
    base = {"SPE": c["spe"], "DUP": c["dup"], "HGT": c["hgt"]}[ev]
    if base == INF:
        return INF
    return base + c["floss"] * losses(S, s, l, r, ev)


def lca_mapping(G, S, leafmap):
    m = {}
    for v in reversed(G.nodes):
        if not G.children[v]:
            m[v] = leafmap[v]
        else:
            m[v] = S.lca(*(m[c] for c in G.children[v]))
    return m


def all_recs(G, S, leafmap):
    """Definition-level: every assignment of species to internal nodes without invalid event."""

    def rec(v):
        if not G.children[v]:
            yield {v: leafmap[v]}
            return
        a, b = G.children[v]
        lefts = list(rec(a))
        rights = list(rec(b))
        for ma in lefts:
            for mb in rights:
                for s in S.nodes:
                    if event(S, s, ma[a], mb[b]) != "INV":
                        m = {v: s}
                        m.update(ma)
                        m.update(mb)
                        yield m

    yield from rec(G.root)


def count_recs(G, S, leafmap, cap=None):
    """Number of valid reconciliations (DP count per (node, species))."""
    cnt = {}
    for v in reversed(G.nodes):
        if not G.children[v]:
            cnt[v] = {leafmap[v]: 1}
        else:
            a, b = G.children[v]
            cnt[v] = {}
            for s in S.nodes:
                n = 0
                for l, nl in cnt[a].items():
                    for r, nr in cnt[b].items():
                        if event(S, s, l, r) != "INV":
                            n += nl * nr
                if n:
                    cnt[v][s] = n
    return sum(cnt[G.root].values())


def some_recs(G, S, leafmap, limit, rng=None):
    """At most ``limit`` valid reconciliations: all of them when there are few, otherwise distinct random ones
    (``all_recs`` materialises the solutions of every subtree and must not be started on large inputs)."""
    import random as _random

    if count_recs(G, S, leafmap) <= max(limit, 20000):
        import itertools

        return list(itertools.islice(all_recs(G, S, leafmap), limit))
    rng = rng or _random.Random(0)
    seen = {}
    for _ in range(limit * 3):
        m = random_rec(rng, G, S, leafmap, high_p=rng.choice([0.2, 0.5, 0.9]))
        seen.setdefault(tuple(sorted(m.items())), m)
        if len(seen) >= limit:
            break
    return list(seen.values())


def rec_cost(G, S, m, c):
    tot = 0
    for v in G.nodes:
        if G.children[v]:
            a, b = G.children[v]
            tot += node_cost(S, m[v], m[a], m[b], c)
    return tot


def rec_events(G, S, m):
    return {
        v: (event(S, m[v], m[G.children[v][0]], m[G.children[v][1]]) if G.children[v] else "LEAF")
        for v in G.nodes
    }


def is_valid(G, S, leafmap, m):
    """R-VALID (plain): total mapping, leaves kept, no invalid event."""
    for v in G.nodes:
        if v not in m:
            return f"node {v} unmapped"
        if not G.children[v]:
            if m[v] != leafmap[v]:
                return f"leaf {G.name[v]} moved"
        else:
            if len(G.children[v]) != 2:
                return "non-binary node"
            a, b = G.children[v]
            if a not in m or b not in m:
                return "child unmapped"
            if event(S, m[v], m[a], m[b]) == "INV":
                return f"invalid event at {v}"
    return None


def dp_table(G, S, leafmap, c, allowed=None):
    """best[v][s] = min cost of the subtree of v with v mapped to s (INF if impossible).

    ``allowed`` optionally restricts the species of each internal node (dict v -> set).
    """
    best = {}
    for v in reversed(G.nodes):
        if not G.children[v]:
            best[v] = {s: (0 if s == leafmap[v] else INF) for s in S.nodes}
        else:
            a, b = G.children[v]
            fa = [(l, x) for l, x in best[a].items() if x != INF]
            fb = [(r, x) for r, x in best[b].items() if x != INF]
            best[v] = {}
            for s in S.nodes:
                if allowed is not None and s not in allowed[v]:
                    best[v][s] = INF
                    continue
                bst = INF
                for l, xl in fa:
                    for r, xr in fb:
                        x = node_cost(S, s, l, r, c)
                        if x == INF:
                            continue
                        t = x + xl + xr
                        if t < bst:
                            bst = t
                best[v][s] = bst
    return best


def dp_min(G, S, leafmap, c, allowed=None):
    best = dp_table(G, S, leafmap, c, allowed)
    return min(best[G.root].values())


def dp_opt_set(G, S, leafmap, c, allowed=None, cap=20000):
    """All optimal mappings via back-tracking through the DP table.
    Returns (min, list of mappings) or (min, None) when more than ``cap``."""
    best = dp_table(G, S, leafmap, c, allowed)
    mn = min(best[G.root].values())
    if mn == INF:
        return mn, []
    count = [0]

    class TooMany(Exception):
        pass

    def expand(v, s):
        if not G.children[v]:
            yield {v: s}
            return
        a, b = G.children[v]
        for l, xl in best[a].items():
            if xl == INF:
                continue
            for r, xr in best[b].items():
                if xr == INF:
                    continue
                x = node_cost(S, s, l, r, c)
                if x == INF or x + xl + xr != best[v][s]:
                    continue
                for ma in expand(a, l):
                    for mb in expand(b, r):
                        m = {v: s}
                        m.update(ma)
                        m.update(mb)
                        yield m

    res = []
    try:
        for s in S.nodes:
            if best[G.root][s] == mn:
                for m in expand(G.root, s):
                    res.append(m)
                    if len(res) > cap:
                        raise TooMany
    except TooMany:
        return mn, None
    return mn, res


def brute_opt(G, S, leafmap, c, allowed=None):
    """(min, optimal list, all valid count) by definition-level enumeration."""
    mn = INF
    opt = []
    n = 0
    for m in all_recs(G, S, leafmap):
        if allowed is not None and any(m[v] not in allowed[v] for v in allowed):
            continue
        n += 1
        x = rec_cost(G, S, m, c)
        if x < mn:
            mn, opt = x, [m]
        elif x == mn and x != INF:
            opt.append(m)
    return mn, opt, n


def coherent(c, plain=False):
    if plain:
        return c["spe"] <= c["dup"] + 2 * c["floss"]
    return c["spe"] + 2 * c.get("sloss", 0) <= c["dup"] + 2 * c["floss"]


def event_counts(G, S, m):
    n = {"SPE": 0, "DUP": 0, "HGT": 0, "LOSS": 0}
    for v in G.nodes:
        if G.children[v]:
            a, b = G.children[v]
            ev = event(S, m[v], m[a], m[b])
            if ev == "INV":
                continue
            n[ev] += 1
            n["LOSS"] += losses(S, m[v], m[a], m[b], ev)
    return n


def random_rec(rng, G, S, leafmap, high_p=0.5):
    """A random valid reconciliation built bottom-up (each node: uniform among the species that give a valid
    event for its children, or with probability 1-high_p the lowest such species)."""
    m = {}
    for v in reversed(G.nodes):
        if not G.children[v]:
            m[v] = leafmap[v]
            continue
        a, b = G.children[v]
        cands = [s for s in S.nodes if event(S, s, m[a], m[b]) != "INV"]
        if rng.random() < high_p:
            m[v] = rng.choice(cands)
        else:
            deepest = max(S.depth[s] for s in cands)
            m[v] = rng.choice([s for s in cands if S.depth[s] == deepest])
    return m
