"""R-TIKZ: tokenizer / statement reader for the generated TikZ code, and the inverse of tex.escape.

Independent of superrec2.  Knows only TeX lexical rules (a backslash followed by a non-letter is a
control symbol, by letters a control word) and the few statement shapes the renderer emits."""
import re


class TikzError(Exception):
    pass


def tokens(text):
    """Yield (kind, value, pos): kind in ctrl, {, }, text."""
    i = 0
    n = len(text)
    while i < n:
        ch = text[i]
        if ch == "\\":
            if i + 1 >= n:
                yield ("ctrl", "\\", i)
                i += 1
                continue
            nx = text[i + 1]
            if nx.isalpha():
                j = i + 1
                while j < n and text[j].isalpha():
                    j += 1
                yield ("ctrl", text[i:j], i)
                i = j
            else:
                yield ("ctrl", text[i : i + 2], i)
                i += 2
        elif ch == "{":
            yield ("{", ch, i)
            i += 1
        elif ch == "}":
            yield ("}", ch, i)
            i += 1
        elif ch == "%":
            j = text.find("\n", i)
            j = n if j < 0 else j
            yield ("comment", text[i:j], i)
            i = j
        else:
            yield ("text", ch, i)
            i += 1


def brace_balance(text):
    """None if braces are balanced (control symbols tokenised), else a reason."""
    depth = 0
    for kind, val, pos in tokens(text):
        if kind == "{":
            depth += 1
        elif kind == "}":
            depth -= 1
            if depth < 0:
                return f"closing brace without opening one at offset {pos}"
    if depth != 0:
        return f"{depth} unclosed brace(s)"
    return None


def unescape(s):
    """Inverse of tex.escape (backslash -> double backslash, underscore -> backslash underscore).
    Raises TikzError on a bare underscore or a dangling backslash."""
    out = []
    i = 0
    while i < len(s):
        ch = s[i]
        if ch == "\\":
            if i + 1 < len(s) and s[i + 1] == "\\":
                out.append("\\")
                i += 2
            elif i + 1 < len(s) and s[i + 1] == "_":
                out.append("_")
                i += 2
            else:
                raise TikzError(f"unexpected control sequence in escaped text {s!r}")
        elif ch == "_":
            raise TikzError(f"bare underscore in {s!r}")
        else:
            out.append(ch)
            i += 1
    return "".join(out)


def escape_model(s):
    return s.replace("\\", "\\\\").replace("_", "\\_")


def _group(text, i):
    """text[i] == '{' -> (content, index after the matching brace), TeX-lexically."""
    assert text[i] == "{", (text[i : i + 20], i)
    depth = 0
    j = i
    n = len(text)
    while j < n:
        ch = text[j]
        if ch == "\\":
            j += 2
            continue
        if ch == "{":
            depth += 1
        elif ch == "}":
            depth -= 1
            if depth == 0:
                return text[i + 1 : j], j + 1
        j += 1
    raise TikzError("unterminated group")


def split_statements(body):
    """Statements of the picture body: each must start with \\path or \\node and end with ';' at
    brace depth 0.  Returns list of statement strings; raises TikzError otherwise."""
    stmts = []
    i = 0
    n = len(body)
    while i < n:
        if body[i].isspace():
            i += 1
            continue
        if body[i] == "%":
            j = body.find("\n", i)
            i = n if j < 0 else j
            continue
        if not (body.startswith("\\path", i) or body.startswith("\\node", i)):
            raise TikzError(f"unexpected text in the picture: {body[i:i+40]!r}")
        depth = 0
        j = i
        while j < n:
            ch = body[j]
            if ch == "\\":
                j += 2
                continue
            if ch == "{":
                depth += 1
            elif ch == "}":
                depth -= 1
            elif ch == ";" and depth == 0:
                break
            j += 1
        if j >= n:
            raise TikzError(f"statement not terminated: {body[i:i+60]!r}")
        stmts.append(body[i : j + 1])
        i = j + 1
    return stmts


NODE_RE = re.compile(r"^\\node\[(?P<kind>[a-z ]+?)=")
COORD = r"\(\s*(-?[0-9.e+-]+)\s*,\s*(-?[0-9.e+-]+)\s*\)"


def parse(text):
    """-> dict(colors: {name: html}, nodes: [..], paths: [..], used_colors: set, problems: [..])"""
    problems = []
    bb = brace_balance(text)
    if bb:
        problems.append(f"braces: {bb}")
    nb = text.count("\\begin{tikzpicture}")
    ne = text.count("\\end{tikzpicture}")
    if nb != 1 or ne != 1:
        problems.append(f"{nb} \\begin{{tikzpicture}} / {ne} \\end{{tikzpicture}}")
        return {"colors": {}, "nodes": [], "paths": [], "used_colors": set(), "problems": problems}
    pre, rest = text.split("\\begin{tikzpicture}")
    body, post = rest.split("\\end{tikzpicture}")
    if post.strip():
        problems.append("text after the picture")
    colors = {}
    for m in re.finditer(r"\\definecolor\{([^{}]*)\}\{HTML\}\{([^{}]*)\}", pre):
        if m.group(1) in colors:
            problems.append(f"colour {m.group(1)} defined twice")
        colors[m.group(1)] = m.group(2)
    if "\\definecolor" in body:
        problems.append("colour defined inside the picture")
    try:
        stmts = split_statements(body)
    except TikzError as exc:
        problems.append(str(exc))
        stmts = []
    nodes, paths, used = [], [], set()
    for st in stmts:
        try:
            if st.startswith("\\node"):
                nodes.append(_parse_node(st))
                used.add(nodes[-1]["color"])
            else:
                p = _parse_path(st)
                paths.append(p)
                if p.get("color"):
                    used.add(p["color"])
        except (TikzError, AssertionError, ValueError, IndexError) as exc:
            problems.append(f"cannot read statement {st[:70]!r}: {exc}")
    for c in used:
        if c not in colors:
            problems.append(f"colour {c} is used but not defined before the picture")
    return {"colors": colors, "nodes": nodes, "paths": paths, "used_colors": used, "problems": problems, "statements": len(stmts)}


def _parse_node(st):
    # \node[<kind>={<color>}{<label>}?] at (x,y) {<content>};
    i = st.index("[")
    j = st.index("=", i)
    kind = st[i + 1 : j].strip()
    color, k = _group(st, j + 1)
    label = None
    if st[k] == "{":
        label, k = _group(st, k)
    if st[k] != "]":
        raise TikzError("node options not closed")
    m = re.match(r"\s*at\s*" + COORD + r"\s*", st[k + 1 :])
    if not m:
        raise TikzError("no 'at (x,y)'")
    pos = (float(m.group(1)), float(m.group(2)))
    k2 = k + 1 + m.end()
    content, k3 = _group(st, k2)
    if st[k3:].strip() != ";":
        raise TikzError("trailing text in node statement")
    return {"kind": kind, "color": color, "pos": pos, "label": label if label is not None else content, "content": content}


def _parse_path(st):
    i = st.index("[")
    # options end at the matching ']' at brace depth 0
    depth = 0
    j = i
    while j < len(st):
        ch = st[j]
        if ch == "\\":
            j += 2
            continue
        if ch == "{":
            depth += 1
        elif ch == "}":
            depth -= 1
        elif ch == "]" and depth == 0:
            break
        j += 1
    opts = st[i + 1 : j]
    rest = st[j + 1 :]
    color = None
    style = opts.split("=")[0].split(",")[0].strip()
    m = re.search(r"(transfer branch|branch)=\{([^{}]*)\}", opts)
    if m:
        style = m.group(1)
        color = m.group(2)
    coords = [(float(a), float(b)) for a, b in re.findall(COORD, rest)]
    return {"style": style, "color": color, "coords": coords, "text": rest, "opts": opts}
