"""R-ORD / R-UNORD: labelled (super-)reconciliation models, by definition.

Syntenies are tuples (ordered) or frozensets (unordered) of family names.
Imports nothing from superrec2.
"""
import itertools
from .dtl import INF, event, node_cost, rec_cost, all_recs, lca_mapping


# ------------------------------------------------------------------ ordered
def is_subseq(child, parent):
    it = iter(parent)
    return all(any(x == y for y in it) for x in child)


def seg_runs(child, parent, edges):
    """Number of maximal runs of parent elements missing from child (sequence-level
    definition); runs touching either end are ignored when ``edges`` is False.
    -1 when child is not a subsequence of parent.  Elements are distinct."""
    if len(set(child)) != len(child) or not is_subseq(child, parent):
        return -1
    cs = set(child)
    flags = [x in cs for x in parent]
    n = len(parent)
    runs = []
    i = 0
    while i < n:
        if not flags[i]:
            j = i
            while j < n and not flags[j]:
                j += 1
            runs.append((i, j))
            i = j
        else:
            i += 1
    if edges:
        return len(runs)
    return sum(1 for (a, b) in runs if a != 0 and b != n)


def subseqs(seq):
    seq = tuple(seq)
    for mask in range(1 << len(seq)):
        yield tuple(seq[i] for i in range(len(seq)) if mask >> i & 1)


def linear_extensions(leafsyns):
    """All orders of the family universe that extend every leaf order (permutation filter)."""
    fams = []
    for s in leafsyns:
        for x in s:
            if x not in fams:
                fams.append(x)
    res = []
    for perm in itertools.permutations(fams):
        pos = {x: i for i, x in enumerate(perm)}
        if all(
            len(set(s)) == len(s) and all(pos[s[i]] < pos[s[i + 1]] for i in range(len(s) - 1))
            for s in leafsyns
        ):
            res.append(perm)
    return res


def one_extension(leafsyns, rng=None):
    """One order of the family universe extending every leaf order (None if cyclic); Kahn's algorithm."""
    fams = []
    for s in leafsyns:
        for x in s:
            if x not in fams:
                fams.append(x)
    succ = {f: set() for f in fams}
    for s in leafsyns:
        for a, b in zip(s, s[1:]):
            succ[a].add(b)
    indeg = {f: 0 for f in fams}
    for a in fams:
        for b in succ[a]:
            indeg[b] += 1
    order = []
    ready = [f for f in fams if indeg[f] == 0]
    while ready:
        f = ready.pop(rng.randrange(len(ready)) if rng else 0)
        order.append(f)
        for b in succ[f]:
            indeg[b] -= 1
            if indeg[b] == 0:
                ready.append(b)
    return tuple(order) if len(order) == len(fams) else None


def ordered_node_label_cost(ev, keep_left, P, L, R, sloss, _memo={}):
    """Segmental-loss cost of one internal node.  ev in SPE/DUP/HGT."""

    def runs(c, p, e):
        k = (c, p, e)
        if k not in _memo:
            if len(_memo) > 400000:
                _memo.clear()
            _memo[k] = seg_runs(c, p, e)
        return _memo[k]

    lt, rt = runs(L, P, True), runs(R, P, True)
    if lt < 0 or rt < 0:
        return INF
    if ev == "SPE":
        return (lt + rt) * sloss
    lf, rf = runs(L, P, False), runs(R, P, False)
    if ev == "DUP":
        return min(lt + rf, lf + rt) * sloss
    if keep_left:
        return (lt + rf) * sloss
    return (lf + rt) * sloss


def ordered_label_cost(G, S, m, lab, sloss):
    """Total labelling cost of a labelled reconciliation (INF when not valid)."""
    tot = 0
    for v in G.nodes:
        if G.children[v]:
            a, b = G.children[v]
            ev = event(S, m[v], m[a], m[b])
            if ev == "INV":
                return INF
            x = ordered_node_label_cost(
                ev, S.is_anc(m[v], m[a]), tuple(lab[v]), tuple(lab[a]), tuple(lab[b]), sloss
            )
            if x == INF:
                return INF
            tot += x
    return tot


def ordered_valid(G, S, leafmap, leafsyn, m, lab, root_order=None):
    """R-VALID (ordered).  Returns None or a reason."""
    from .dtl import is_valid

    r = is_valid(G, S, leafmap, m)
    if r:
        return r
    universe = set()
    for v in G.leaves():
        universe |= set(leafsyn[v])
    for v in G.nodes:
        if v not in lab:
            return f"node {v} unlabelled"
        if len(set(lab[v])) != len(lab[v]):
            return f"repeated family at {v}"
        if not G.children[v]:
            if tuple(lab[v]) != tuple(leafsyn[v]):
                return f"leaf synteny of {G.name[v]} changed"
        else:
            for c in G.children[v]:
                if not is_subseq(tuple(lab[c]), tuple(lab[v])):
                    return f"child {c} not a subsequence of {v}"
    root = tuple(lab[G.root])
    if root_order is not None:
        universe |= set(root_order)  # a prescribed root order may hold families that every leaf has lost
    if set(root) != universe or len(root) != len(universe):
        return "root does not hold every family once"
    if root_order is not None and root != tuple(root_order):
        return "root order differs from the prescribed one"
    return None


def ordered_solve(G, S, leafmap, c, leafsyn, root_order=None, allowed=None, want_set=False, cap=5000, tables_out=None):
    """Joint DP over (node, species, synteny).
    Returns (min, solutions) where solutions is a list of (mapping, labelling) or None
    (not requested / more than cap)."""
    leaves = G.leaves()
    if root_order is not None:
        orders = [tuple(root_order)]
    else:
        orders = linear_extensions([tuple(leafsyn[v]) for v in leaves])
    sloss = c["sloss"]
    best_total = INF
    tables = []
    for ro in orders:
        if any(not is_subseq(tuple(leafsyn[v]), ro) for v in leaves):
            continue
        subs = list(subseqs(ro))
        f = {}
        for v in reversed(G.nodes):
            if not G.children[v]:
                f[v] = {(leafmap[v], tuple(leafsyn[v])): 0}
                continue
            a, b = G.children[v]
            fa = list(f[a].items())
            fb = list(f[b].items())
            f[v] = {}
            cands = [ro] if v == G.root else subs
            for s in S.nodes:
                if allowed is not None and s not in allowed[v]:
                    continue
                pairs = []
                for (l, L), xl in fa:
                    for (r, R), xr in fb:
                        nc = node_cost(S, s, l, r, c)
                        if nc == INF:
                            continue
                        pairs.append((event(S, s, l, r), S.is_anc(s, l), L, R, nc + xl + xr))
                if not pairs:
                    continue
                for P in cands:
                    bst = INF
                    for ev, kl, L, R, base in pairs:
                        if base >= bst:
                            continue
                        x = ordered_node_label_cost(ev, kl, P, L, R, sloss)
                        if x == INF:
                            continue
                        if base + x < bst:
                            bst = base + x
                    if bst != INF:
                        f[v][(s, P)] = bst
        if not G.children[G.root]:
            # single leaf: its synteny is the root synteny
            if tuple(leafsyn[G.root]) != ro:
                continue
        roots = {k: x for k, x in f[G.root].items() if k[1] == ro}
        if tables_out is not None:
            tables_out.append((ro, f))
        if roots:
            mn = min(roots.values())
            best_total = min(best_total, mn)
            tables.append((ro, f, mn))
    if not want_set:
        return best_total, None
    if best_total == INF:
        return best_total, []
    sols = []

    class TooMany(Exception):
        pass

    def expand(f, v, s, P):
        if not G.children[v]:
            yield {v: s}, {v: P}
            return
        a, b = G.children[v]
        target = f[v][(s, P)]
        for (l, L), xl in f[a].items():
            for (r, R), xr in f[b].items():
                nc = node_cost(S, s, l, r, c)
                if nc == INF:
                    continue
                x = ordered_node_label_cost(event(S, s, l, r), S.is_anc(s, l), P, L, R, sloss)
                if x == INF or nc + x + xl + xr != target:
                    continue
                for ma, la in expand(f, a, l, L):
                    for mb, lb in expand(f, b, r, R):
                        m = {v: s}
                        m.update(ma)
                        m.update(mb)
                        lab = {v: P}
                        lab.update(la)
                        lab.update(lb)
                        yield m, lab

    try:
        for ro, f, mn in tables:
            if mn != best_total:
                continue
            for (s, P), x in f[G.root].items():
                if x == best_total and P == ro:
                    for sol in expand(f, G.root, s, P):
                        sols.append(sol)
                        if len(sols) > cap:
                            raise TooMany
    except TooMany:
        return best_total, None
    return best_total, sols


def ordered_brute(G, S, leafmap, c, leafsyn, root_order=None, allowed=None):
    """Second formulation (oracle self-check): every valid mapping x every root order x
    every labelling, enumerated explicitly.  Only for tiny inputs."""
    leaves = G.leaves()
    orders = (
        [tuple(root_order)]
        if root_order is not None
        else linear_extensions([tuple(leafsyn[v]) for v in leaves])
    )
    internal = [v for v in G.nodes if G.children[v] and v != G.root]
    best = INF
    nopt = 0
    for m in all_recs(G, S, leafmap):
        if allowed is not None and any(m[v] not in allowed[v] for v in allowed):
            continue
        rc = rec_cost(G, S, m, c)
        if rc == INF:
            continue
        for ro in orders:
            subs = list(subseqs(ro))
            for choice in itertools.product(subs, repeat=len(internal)):
                lab = {v: tuple(leafsyn[v]) for v in leaves}
                if G.children[G.root]:
                    lab[G.root] = ro
                elif lab[G.root] != ro:
                    continue
                lab.update(dict(zip(internal, choice)))
                lc = ordered_label_cost(G, S, m, lab, c["sloss"])
                if lc == INF:
                    continue
                t = rc + lc
                if t < best:
                    best, nopt = t, 1
                elif t == best:
                    nopt += 1
    return best, nopt


# ---------------------------------------------------------------- unordered
def gain_nodes(G, leafsyn):
    byfam = {}
    for v in G.leaves():
        for x in leafsyn[v]:
            byfam.setdefault(x, []).append(v)
    return {x: G.lca(*ls) for x, ls in byfam.items()}


def unordered_frames(G, leafsyn):
    """gain node per family, required content, gains per node, content allowed at most."""
    g = gain_nodes(G, leafsyn)
    fams = sorted(g)
    req = {}
    for v in reversed(G.nodes):
        if not G.children[v]:
            req[v] = frozenset(leafsyn[v])
        else:
            u = frozenset().union(*(req[ch] for ch in G.children[v]))
            req[v] = frozenset(x for x in u if G.is_anc(g[x], v))
    gains = {v: frozenset(x for x in fams if g[x] == v) for v in G.nodes}
    allowed_top = {v: frozenset(x for x in fams if G.is_anc(g[x], v)) for v in G.nodes}
    return g, req, gains, allowed_top


def unordered_node_label_cost(ev, keep_left, P, L, R, sloss):
    lc = 0 if P <= L else sloss
    rc = 0 if P <= R else sloss
    if ev == "SPE":
        return lc + rc
    if ev == "DUP":
        return min(lc, rc)
    return lc if keep_left else rc


def unordered_label_cost(G, S, m, lab, sloss):
    tot = 0
    for v in G.nodes:
        if G.children[v]:
            a, b = G.children[v]
            ev = event(S, m[v], m[a], m[b])
            if ev == "INV":
                return INF
            tot += unordered_node_label_cost(
                ev, S.is_anc(m[v], m[a]), frozenset(lab[v]), frozenset(lab[a]), frozenset(lab[b]), sloss
            )
    return tot


def unordered_valid(G, S, leafmap, leafsyn, m, lab):
    """R-VALID (unordered).  Returns None or a reason."""
    from .dtl import is_valid

    r = is_valid(G, S, leafmap, m)
    if r:
        return r
    g = gain_nodes(G, leafsyn)
    for v in G.nodes:
        if v not in lab:
            return f"node {v} unlabelled"
        fs = frozenset(lab[v])
        if len(fs) != len(list(lab[v])):
            return f"repeated family at {v}"
        if not G.children[v]:
            if fs != frozenset(leafsyn[v]):
                return f"leaf synteny of {G.name[v]} changed"
        for x in fs:
            if x not in g:
                return f"unknown family {x} at {v}"
            if not G.is_anc(g[x], v):
                return f"family {x} outside the subtree of its gain node (at {v})"
            p = G.parent[v]
            if v != g[x] and (p is None or x not in frozenset(lab[p])):
                return f"family {x} at {v} below a node that lacks it"
    return None


def _between(lo, hi):
    extra = sorted(hi - lo)
    for k in range(len(extra) + 1):
        for comb in itertools.combinations(extra, k):
            yield lo | frozenset(comb)


def unordered_solve(G, S, leafmap, c, leafsyn, allowed=None, canonical_only=False, want_set=False, cap=5000, tables_out=None):
    """Joint DP over (node, species, family set) with every labelling between required
    and allowed content (or only the two canonical choices)."""
    g, req, gains, allowed_top = unordered_frames(G, leafsyn)
    sloss = c["sloss"]
    f = {}
    for v in reversed(G.nodes):
        if not G.children[v]:
            f[v] = {(leafmap[v], frozenset(leafsyn[v])): 0}
            continue
        a, b = G.children[v]
        fa = list(f[a].items())
        fb = list(f[b].items())
        f[v] = {}
        for s in S.nodes:
            if allowed is not None and s not in allowed[v]:
                continue
            pairs = []
            for (l, L), xl in fa:
                for (r, R), xr in fb:
                    nc = node_cost(S, s, l, r, c)
                    if nc == INF:
                        continue
                    pairs.append((event(S, s, l, r), S.is_anc(s, l), L, R, nc + xl + xr))
            if not pairs:
                continue
            for P in _between(req[v], allowed_top[v]):
                bst = INF
                for ev, kl, L, R, base in pairs:
                    if not (L <= P | gains[a]) or not (R <= P | gains[b]):
                        continue
                    if canonical_only:
                        if L not in (req[a], P | gains[a]) or R not in (req[b], P | gains[b]):
                            continue
                    t = base + unordered_node_label_cost(ev, kl, P, L, R, sloss)
                    if t < bst:
                        bst = t
                if bst != INF:
                    f[v][(s, P)] = bst
    roots = {k: x for k, x in f[G.root].items() if k[1] == req[G.root]}
    if tables_out is not None:
        tables_out.append((f, req, gains))
    if not roots:
        return INF, ([] if want_set else None)
    mn = min(roots.values())
    if not want_set:
        return mn, None

    class TooMany(Exception):
        pass

    def expand(v, s, P):
        if not G.children[v]:
            yield {v: s}, {v: P}
            return
        a, b = G.children[v]
        target = f[v][(s, P)]
        for (l, L), xl in f[a].items():
            if not (L <= P | gains[a]):
                continue
            if canonical_only and L not in (req[a], P | gains[a]):
                continue
            for (r, R), xr in f[b].items():
                if not (R <= P | gains[b]):
                    continue
                if canonical_only and R not in (req[b], P | gains[b]):
                    continue
                nc = node_cost(S, s, l, r, c)
                if nc == INF:
                    continue
                x = unordered_node_label_cost(event(S, s, l, r), S.is_anc(s, l), P, L, R, sloss)
                if nc + x + xl + xr != target:
                    continue
                for ma, la in expand(a, l, L):
                    for mb, lb in expand(b, r, R):
                        m = {v: s}
                        m.update(ma)
                        m.update(mb)
                        lab = {v: P}
                        lab.update(la)
                        lab.update(lb)
                        yield m, lab

    sols = []
    try:
        for (s, P), x in roots.items():
            if x == mn:
                for sol in expand(G.root, s, P):
                    sols.append(sol)
                    if len(sols) > cap:
                        raise TooMany
    except TooMany:
        return mn, None
    return mn, sols


def unordered_brute(G, S, leafmap, c, leafsyn, allowed=None):
    """Second formulation: every valid mapping x every valid labelling, explicitly."""
    g, req, gains, allowed_top = unordered_frames(G, leafsyn)
    internal = [v for v in G.nodes if G.children[v]]
    best = INF
    nopt = 0
    for m in all_recs(G, S, leafmap):
        if allowed is not None and any(m[v] not in allowed[v] for v in allowed):
            continue
        rc = rec_cost(G, S, m, c)
        if rc == INF:
            continue
        for choice in itertools.product(*(list(_between(req[v], allowed_top[v])) for v in internal)):
            lab = {v: frozenset(leafsyn[v]) for v in G.leaves()}
            lab.update(dict(zip(internal, choice)))
            if unordered_valid(G, S, leafmap, leafsyn, m, lab) is not None:
                continue
            t = rc + unordered_label_cost(G, S, m, lab, c["sloss"])
            if t < best:
                best, nopt = t, 1
            elif t == best:
                nopt += 1
    return best, nopt
