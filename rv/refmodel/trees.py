"""R-TREE: rooted trees as parent arrays, queries by definition on parent chains.

Independent reference model: imports nothing from superrec2.  Trees are built
from nested lists/tuples whose leaves are strings; an internal node may be
written ``{"name": "X", "ch": [...]}`` to carry a name (and ``"color"``).
"""
import itertools
import random


class T:
    """Rooted ordered tree of any arity.  Node ids are preorder integers."""

    def __init__(self, nested):
        self.children = {}
        self.parent = {}
        self.name = {}
        self.color = {}
        self.nodes = []  # preorder
        self._n = 0
        self.root = self._build(nested, None)
        self.depth = {}
        for v in self.nodes:
            p = self.parent[v]
            self.depth[v] = 0 if p is None else self.depth[p] + 1
        self.anc = {v: self._ancs(v) for v in self.nodes}  # self first, root last
        self.ancset = {v: frozenset(a) for v, a in self.anc.items()}
        self._clade = {}
        for v in reversed(self.nodes):
            if not self.children[v]:
                self._clade[v] = frozenset([self.name[v]])
            else:
                self._clade[v] = frozenset().union(
                    *(self._clade[c] for c in self.children[v])
                )

    def _build(self, nested, parent):
        v = self._n
        self._n += 1
        self.nodes.append(v)
        self.parent[v] = parent
        self.children[v] = []
        self.name[v] = None
        if isinstance(nested, str):
            self.name[v] = nested
        elif isinstance(nested, dict):
            self.name[v] = nested.get("name")
            if nested.get("color"):
                self.color[v] = nested["color"]
            for c in nested.get("ch", []):
                self.children[v].append(self._build(c, v))
        else:
            for c in nested:
                self.children[v].append(self._build(c, v))
        return v

    def _ancs(self, v):
        r = []
        while v is not None:
            r.append(v)
            v = self.parent[v]
        return r

    # --- definitions on parent chains
    def is_anc(self, a, b):
        """a is an ancestor of b or b itself."""
        return a in self.ancset[b]

    def is_strict_anc(self, a, b):
        return a != b and a in self.ancset[b]

    def comparable(self, a, b):
        return self.is_anc(a, b) or self.is_anc(b, a)

    def lca(self, *vs):
        common = None
        for v in vs:
            common = self.ancset[v] if common is None else common & self.ancset[v]
        return max(common, key=lambda x: self.depth[x])

    def dist(self, a, b):
        l = self.lca(a, b)
        return self.depth[a] + self.depth[b] - 2 * self.depth[l]

    def leaves(self, v=None):
        if v is None:
            return [x for x in self.nodes if not self.children[x]]
        return [x for x in self.nodes if not self.children[x] and self.is_anc(v, x)]

    def internal(self):
        return [x for x in self.nodes if self.children[x]]

    def subtree(self, v):
        return [x for x in self.nodes if self.is_anc(v, x)]

    def clade(self, v):
        return self._clade[v]

    def by_clade(self):
        return {self._clade[v]: v for v in self.nodes}

    def by_name(self):
        return {self.name[v]: v for v in self.nodes if self.name[v] is not None}

    def is_binary(self):
        return all(len(c) in (0, 2) for c in self.children.values())

    def nested(self, v=None, names=False):
        """Back to nested lists (JSON-able)."""
        if v is None:
            v = self.root
        if not self.children[v]:
            return self.name[v]
        ch = [self.nested(c, names) for c in self.children[v]]
        if names and (self.name[v] is not None or v in self.color):
            d = {"ch": ch}
            if self.name[v] is not None:
                d["name"] = self.name[v]
            if v in self.color:
                d["color"] = self.color[v]
            return d
        return ch

    def newick(self, v=None, names=None, colors=True):
        """Newick text; ``names`` overrides/extends node names."""
        top = v is None
        if v is None:
            v = self.root
        nm = (names or {}).get(v, self.name[v]) or ""
        if self.children[v]:
            s = "(" + ",".join(self.newick(c, names, colors) for c in self.children[v]) + ")" + nm
        else:
            s = nm
        if colors and v in self.color:
            s += f"[&&NHX:color={self.color[v]}]"
        return s + (";" if top else "")

    def clades(self):
        return frozenset(self._clade[v] for v in self.nodes)


def default_names(t, prefix):
    """Name every node: leaves keep their names, internal nodes <prefix><preorder idx>."""
    names = {}
    i = 0
    for v in t.nodes:
        if t.children[v]:
            names[v] = t.name[v] if t.name[v] is not None else f"{prefix}{i}"
            i += 1
        else:
            names[v] = t.name[v]
    return names


# ---------------------------------------------------------------- generators
def binary_shapes(n):
    """All unlabelled rooted binary tree shapes with n leaves, as nested tuples of None."""
    if n == 1:
        return [None]
    out = []
    for k in range(1, n // 2 + 1):
        ls = binary_shapes(k)
        rs = binary_shapes(n - k)
        if k == n - k:
            for i, a in enumerate(ls):
                for b in rs[i:]:
                    out.append((a, b))
        else:
            for a in ls:
                for b in rs:
                    out.append((a, b))
    return out


def mirror(shape):
    if shape is None or isinstance(shape, str):
        return shape
    return tuple(mirror(c) for c in reversed(shape))


def shape_leaf_count(shape):
    if shape is None or isinstance(shape, str):
        return 1
    return sum(shape_leaf_count(c) for c in shape)


def fill_shape(shape, labels):
    """Replace the leaves (None) of a shape by labels, left to right."""
    it = iter(labels)

    def go(s):
        if s is None:
            return next(it)
        return [go(c) for c in s]

    return go(shape)


def all_labelled_binary(labels):
    """All rooted binary leaf-labelled trees (unordered) on the label list; (2n-3)!! trees."""
    labels = list(labels)
    if len(labels) == 1:
        yield labels[0]
        return
    first, rest = labels[0], labels[1:]
    for k in range(0, len(rest)):
        for comb in itertools.combinations(rest, k):
            left = [first] + list(comb)
            right = [x for x in rest if x not in comb]
            if not right:
                continue
            for lt in all_labelled_binary(left):
                for rt in all_labelled_binary(right):
                    yield [lt, rt]


def any_arity_shapes(n):
    """All unlabelled rooted ordered-canonical tree shapes with n leaves where every
    internal node has >=2 children (multisets of child shapes, canonical order)."""
    memo = {}

    def shapes(m):
        if m in memo:
            return memo[m]
        if m == 1:
            memo[m] = [None]
            return memo[m]
        res = []

        # partitions of m into >=2 parts, non-increasing
        def parts(rem, maxp, acc):
            if rem == 0:
                if len(acc) >= 2:
                    yield list(acc)
                return
            for p in range(min(rem, maxp), 0, -1):
                acc.append(p)
                yield from parts(rem - p, p, acc)
                acc.pop()

        for part in parts(m, m - 1, []):
            # choose shapes for each part; for equal sizes use combinations with replacement
            groups = []
            for size, grp in itertools.groupby(part):
                cnt = len(list(grp))
                groups.append(
                    list(itertools.combinations_with_replacement(range(len(shapes(size))), cnt))
                    and [
                        tuple(shapes(size)[i] for i in combo)
                        for combo in itertools.combinations_with_replacement(
                            range(len(shapes(size))), cnt
                        )
                    ]
                )
            for choice in itertools.product(*groups):
                res.append(tuple(itertools.chain.from_iterable(choice)))
        memo[m] = res
        return res

    return shapes(n)


def rooted_ordered_trees(n_nodes):
    """All rooted ordered trees with n nodes (Catalan(n-1)); leaves are None, unary allowed."""
    if n_nodes == 1:
        return [None]
    out = []

    # forests of total size n_nodes-1
    def forests(m):
        if m == 0:
            return [()]
        res = []
        for k in range(1, m + 1):
            for first in rooted_ordered_trees(k):
                for rest in forests(m - k):
                    res.append((first,) + rest)
        return res

    for f in forests(n_nodes - 1):
        out.append(f)
    return out


def random_binary(rng, labels):
    """Random binary tree by uniform random joins."""
    items = list(labels)
    rng.shuffle(items)
    while len(items) > 1:
        i, j = rng.sample(range(len(items)), 2)
        a, b = items[i], items[j]
        items = [x for k, x in enumerate(items) if k not in (i, j)] + [[a, b]]
    return items[0]


def caterpillar(labels):
    labels = list(labels)
    t = labels[0]
    for x in labels[1:]:
        t = [t, x]
    return t


def balanced(labels):
    labels = list(labels)
    if len(labels) == 1:
        return labels[0]
    h = len(labels) // 2
    return [balanced(labels[:h]), balanced(labels[h:])]


def random_tree_shape(rng, labels, kind=None):
    kind = kind or rng.choice(["rand", "rand", "rand", "cat", "bal"])
    labels = list(labels)
    if kind == "cat":
        rng.shuffle(labels)
        t = caterpillar(labels)
        return mirror_random(rng, t)
    if kind == "bal":
        rng.shuffle(labels)
        return balanced(labels)
    return random_binary(rng, labels)


def mirror_random(rng, t):
    if isinstance(t, str):
        return t
    ch = [mirror_random(rng, c) for c in t]
    if rng.random() < 0.5:
        ch.reverse()
    return ch


def random_multifurcating(rng, labels, max_poly=2, max_arity=4):
    """Random tree with at most max_poly nodes of arity 3..max_arity."""
    t = random_binary(rng, labels)

    # contract random internal edges to create polytomies
    def internal_edges(node, acc, path):
        if isinstance(node, str):
            return
        for i, c in enumerate(node):
            if not isinstance(c, str):
                acc.append(path + (i,))
            internal_edges(c, acc, path + (i,))

    for _ in range(rng.randint(1, max_poly)):
        acc = []
        internal_edges(t, acc, ())
        if not acc:
            break
        path = rng.choice(acc)
        parent = t
        for i in path[:-1]:
            parent = parent[i]
        child = parent[path[-1]]
        if len(parent) - 1 + len(child) > max_arity:
            continue
        parent[path[-1] : path[-1] + 1] = child
    return t


def tolist(t):
    if isinstance(t, (list, tuple)):
        return [tolist(c) for c in t]
    return t
