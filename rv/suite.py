"""Reference optimum (and optimal set) per algorithm, and shared case generators for solver properties."""
import math

from rv import bridge, gen, solvercheck as SC
from rv.refmodel import dtl, label
from rv.refmodel.trees import T


def model_solve(B, algo, want_set=False, cap=3000, canonical=None):
    """(model minimum, optimal set as canonical forms | None when not requested or too large).

    For the unordered solvers ``canonical`` selects the labelling space: False = every labelling between
    required and allowed content (C03), True = only the canonical labellings named in C05."""
    G, S, lm, c = B.G, B.S, B.leafmap, B.c
    kind = SC.kind_of(algo)
    if kind == "plain":
        if algo == "lca":
            m = dtl.lca_mapping(G, S, lm)
            x = dtl.rec_cost(G, S, m, c)
            return x, ({bridge.canon(G, S, m)} if want_set else None)
        mn, sols = dtl.dp_opt_set(G, S, lm, c, cap=cap if want_set else 0)
        if not want_set or sols is None:
            return mn, None
        return mn, {bridge.canon(G, S, m) for m in sols}
    allowed = SC.allowed_lca(B) if algo.startswith("base_") else None
    if kind == "ordered":
        mn, sols = label.ordered_solve(G, S, lm, c, B.syn, root_order=B.root_order, allowed=allowed, want_set=want_set, cap=cap)
        if not want_set or sols is None:
            return mn, None
        return mn, {bridge.canon(G, S, m, lab) for m, lab in sols}
    canonical = bool(canonical)
    mn, sols = label.unordered_solve(G, S, lm, c, B.syn, allowed=allowed, canonical_only=canonical, want_set=want_set, cap=cap)
    if not want_set or sols is None:
        return mn, None
    return mn, {bridge.canon(G, S, m, lab, unordered=True) for m, lab in sols}


def one_optimal_mapping(B):
    mn, sols = dtl.dp_opt_set(B.G, B.S, B.leafmap, B.c, cap=30)
    if sols:
        return sols[0], len(sols)
    return dtl.lca_mapping(B.G, B.S, B.leafmap), 31


def super_signature(B, algo, mn, nopt, sol=None):
    """Abstract signature for labelled cases."""
    nfam = len({f for s in B.syn.values() for f in s}) if B.syn else 0
    m = sol
    ev = dtl.event_counts(B.G, B.S, m) if m is not None else {"SPE": 0, "DUP": 0, "HGT": 0, "LOSS": 0}
    bucket = 0 if not nopt else (1 if nopt == 1 else (2 if nopt <= 4 else 3))
    c = B.c
    return (
        algo, len(B.G.leaves()), len(B.S.leaves()), nfam, ev["SPE"], ev["DUP"], ev["HGT"], min(ev["LOSS"], 5), bucket,
        mn if mn == math.inf or mn <= 12 else 13, c["hgt"] == math.inf, c["floss"] == 0, c["sloss"] == 0, B.root_order is not None,
    )


def random_super_case(rng, algo, max_obj, max_sp, max_fam, coherent_only=True, consistent_p=0.9, root_order_p=0.0, cost=None, min_obj=1, min_sp=1):
    ordered = SC.kind_of(algo) == "ordered"
    Gn, Sn, lm = gen.random_input(rng, max_obj, max_sp, min_obj=min_obj, min_sp=min_sp)
    case = {"kind": "super", "algo": algo, "G": Gn, "S": Sn, "leafmap": lm,
            "costs": cost or gen.random_cost(rng, plain=False, coherent_only=coherent_only),
            "syn": gen.random_syntenies(rng, list(lm), max_fam, ordered=ordered, consistent_p=consistent_p if ordered else 1.0)}
    case["costs"] = gen.tame(case["costs"], len(lm))
    if rng.random() < 0.5 and not isinstance(Gn, str):
        case["syn"] = gen.clade_syntenies(rng, Gn, rng.randint(1, max_fam), ordered=ordered)
    r = rng.random()
    if r < 0.15:
        # the container in which syntenies are handed over: tuples (ordered) / sets or frozensets (unordered)
        case["syn_form"] = "tuple" if ordered else ("set" if r < 0.07 else "frozenset")
    if ordered and rng.random() < root_order_p and not isinstance(Gn, str):
        ro = gen.common_supersequence(rng, case["syn"])
        if ro is not None:
            case["root_order"] = ro
    return gen.hostile_family_names(rng, case)


def cost_of_first(B, sols_or_none):
    return None
