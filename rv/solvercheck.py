"""Shared L0 boundary observer for the seven algorithms."""
import io
import math
import sys
import contextlib

from rv import bridge
from rv.bridge import ALL, ANY
from rv.refmodel import dtl, label

PLAIN = ("lca", "thl", "exh")
ORDERED = ("base_spfs", "ext_spfs")
UNORDERED = ("base_uspfs", "superdtl")


class Obs:
    """One call/return observation of a solver."""

    def __init__(self):
        self.exc = None
        self.outs = []
        self.ext = []  # harness-side extraction per output
        self.stderr = ""


class _CallBudget(BaseException):
    pass


def _on_alarm(signum, frame):
    raise _CallBudget()


def call(algo, inp, policy=None):
    """Call the real entry point exactly as a user would; exceptions are events.

    A wall-clock budget per call (``VERIF_CALL_BUDGET_S``, default 150 s; cost vectors under which almost everything
    ties can make an ALL set explode) and the shard's address-space limit are watchdogs: exceeding either raises
    SkipCase (the case is dropped and counted), never a verdict."""
    import os
    import signal

    from rv.core import SkipCase

    fn = bridge.algos()[algo]
    o = Obs()
    err = io.StringIO()
    budget = float(os.environ.get("VERIF_CALL_BUDGET_S", "150"))
    armed = False
    try:
        try:
            old = signal.signal(signal.SIGALRM, _on_alarm)
            signal.setitimer(signal.ITIMER_REAL, budget)
            armed = True
        except (ValueError, OSError, AttributeError):  # not in the main thread / not available
            armed = False
        try:
            with contextlib.redirect_stderr(err):
                res = fn(inp) if algo == "lca" else fn(inp, policy)
            if res is None:
                o.outs = []
            elif algo == "lca":
                o.outs = [res]
            else:
                o.outs = list(res)
        finally:
            if armed:
                signal.setitimer(signal.ITIMER_REAL, 0)
                signal.signal(signal.SIGALRM, old)
    except _CallBudget:
        raise SkipCase(f"{algo} did not return within {budget:.0f} s") from None
    except MemoryError:
        o.outs = []
        import gc

        gc.collect()
        raise SkipCase(f"{algo} exhausted the shard's memory limit") from None
    except RecursionError:
        raise  # resource exhaustion of the harness process is never an observation about the property
    except Exception as exc:  # noqa: BLE001 - an escaping exception is an observation
        import traceback

        o.exc = "".join(traceback.format_exception_only(type(exc), exc)).strip() + " @ " + _where(exc)
    o.stderr = err.getvalue()
    try:
        if len(o.outs) > 60000:
            raise MemoryError
        o.ext = [bridge.extract(x) for x in o.outs]
    except MemoryError:
        n = len(o.outs)
        o.outs, o.ext = [], []
        import gc

        gc.collect()
        raise SkipCase(f"{algo} returned {n} solutions: too many to extract within the shard's memory limit") from None
    return o


def _where(exc):
    tb = exc.__traceback__
    last = None
    while tb is not None:
        last = tb
        tb = tb.tb_next
    if last is None:
        return "?"
    return f"{last.tb_frame.f_code.co_filename.split('/')[-1]}:{last.tb_lineno}"


def model_cost(e, c, kind):
    """Cost of an extracted solution recomputed by the reference model (INF if invalid)."""
    G, S, m = e["G"], e["S"], e["m"]
    if e["problems"] or set(m) != set(G.nodes) or not G.is_binary() or not S.is_binary():
        return math.inf
    rc = dtl.rec_cost(G, S, m, c)
    if kind == "plain" or rc == math.inf:
        return rc
    lab = e["lab"]
    if lab is None or set(lab) != set(G.nodes):
        return math.inf
    if kind == "ordered":
        return rc + label.ordered_label_cost(G, S, m, lab, c["sloss"])
    return rc + label.unordered_label_cost(G, S, m, {v: frozenset(x) for v, x in lab.items()}, c["sloss"])


def validity(e, kind, root_order=None):
    """R-VALID on an extracted solution, against the leaf data carried by its own input."""
    G, S, m = e["G"], e["S"], e["m"]
    if e["problems"]:
        return "; ".join(e["problems"])
    if not G.is_binary():
        return "object tree of the solution is not binary"
    if not S.is_binary():
        return "species tree of the solution is not binary"
    if kind == "plain":
        return dtl.is_valid(G, S, e["leafmap"], m)
    leafsyn = {v: e["leafsyn"][v] for v in G.leaves() if v in e["leafsyn"]}
    if set(leafsyn) != set(G.leaves()):
        return "input of the solution lost leaf syntenies"
    if e["lab"] is None:
        return "no synteny labelling"
    if kind == "ordered":
        if e["ordered"] is not True:
            return "ordered flag not set"
        return label.ordered_valid(G, S, e["leafmap"], leafsyn, m, e["lab"], root_order)
    if e["ordered"] is not False:
        return "ordered flag set on an unordered solution"
    return label.unordered_valid(G, S, e["leafmap"], leafsyn, m, {v: frozenset(x) for v, x in e["lab"].items()})


def kind_of(algo):
    if algo in PLAIN:
        return "plain"
    return "ordered" if algo in ORDERED else "unordered"


def allowed_lca(B):
    """Species restriction of the base variants: the LCA mapping."""
    m = dtl.lca_mapping(B.G, B.S, B.leafmap)
    return {v: {m[v]} for v in B.G.nodes if B.G.children[v]}


def canon_set(o):
    """List of canonical forms (None for malformed outputs)."""
    res = []
    for e in o.ext:
        if e["problems"] or set(e["m"]) != set(e["G"].nodes):
            res.append(None)
            continue
        if e["lab"] is not None and set(e["lab"]) != set(e["G"].nodes):
            res.append(None)
            continue
        res.append(bridge.canon(e["G"], e["S"], e["m"], e["lab"], e["ordered"] is False))
    return res


def signature(B, m, mn, nopt):
    """Abstract signature of a solver case used for distinct_nontrivial."""
    n = dtl.event_counts(B.G, B.S, m) if m is not None else {"SPE": 0, "DUP": 0, "HGT": 0, "LOSS": 0}
    c = B.c
    bucket = 0 if not nopt else (1 if nopt == 1 else (2 if nopt <= 4 else 3))
    return (
        len(B.G.leaves()), len(B.S.leaves()), n["SPE"], n["DUP"], n["HGT"], min(n["LOSS"], 6), bucket,
        c["hgt"] == math.inf, c["floss"] == 0, c.get("sloss", 1) == 0, c["spe"] > 0,
    )


def nontrivial(B, m):
    if m is None or len(B.G.leaves()) < 2:
        return False
    n = dtl.event_counts(B.G, B.S, m)
    return n["DUP"] + n["HGT"] + n["LOSS"] > 0
