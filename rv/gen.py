"""Workload generators: plain-data cases (JSON-able)."""
import itertools
import math

from rv.refmodel import trees as RT
from rv.refmodel.dtl import coherent

SPECIES = "ABCDEFGHIJKL"


def species_labels(n):
    return list(SPECIES[:n])


def object_labels(n):
    return [f"g{i}" for i in range(n)]


def cost_grid(plain=True):
    """The full grid of DESIGN section 4 (as cost dicts, hgt may be 'inf')."""
    out = []
    for spe in (0, 1, 2):
        for dup in (0, 1, 2, 3):
            for hgt in (0, 1, 2, 3, "inf"):
                for floss in (0, 1, 2):
                    if plain:
                        out.append({"spe": spe, "dup": dup, "hgt": hgt, "floss": floss, "sloss": 1})
                    else:
                        for sloss in (0, 1, 2, 3):
                            out.append({"spe": spe, "dup": dup, "hgt": hgt, "floss": floss, "sloss": sloss})
    return out


DEFAULT = {"spe": 0, "dup": 1, "hgt": 1, "floss": 1, "sloss": 1}


def _num(c):
    return {k: (math.inf if v == "inf" else v) for k, v in c.items()}


def coherent_grid(plain=True):
    return [c for c in cost_grid(plain) if coherent(_num(c), plain)]


def corner_costs(plain=True):
    cs = [
        DEFAULT,
        {"spe": 0, "dup": 0, "hgt": 0, "floss": 0, "sloss": 0},
        {"spe": 0, "dup": 1, "hgt": "inf", "floss": 1, "sloss": 1},
        {"spe": 0, "dup": 1, "hgt": 1, "floss": 0, "sloss": 1},
        {"spe": 0, "dup": 1, "hgt": 1, "floss": 1, "sloss": 0},
        {"spe": 2, "dup": 3, "hgt": 1, "floss": 1, "sloss": 1},
        {"spe": 1, "dup": 1, "hgt": 1, "floss": 0, "sloss": 0},
        {"spe": 2, "dup": 3, "hgt": 4, "floss": 1, "sloss": 1},
        {"spe": 0, "dup": 2, "hgt": 3, "floss": 1, "sloss": 1},
        {"spe": 1, "dup": 2, "hgt": 2, "floss": 2, "sloss": 2},
        {"spe": 0, "dup": 3, "hgt": 0, "floss": 2, "sloss": 1},
        # loss-heavy: a loss is dearer than a transfer (deep placements tie with / lose against transfers)
        {"spe": 0, "dup": 1, "hgt": 1, "floss": 2, "sloss": 1},
        {"spe": 0, "dup": 3, "hgt": 1, "floss": 2, "sloss": 1},
        {"spe": 0, "dup": 2, "hgt": 2, "floss": 3, "sloss": 1},
    ]
    return [c for c in cs if coherent(_num(c), plain)]


def stratified_costs(rng, n, plain=True, coherent_only=True):
    """Corner vectors + a seeded sample of the grid."""
    grid = coherent_grid(plain) if coherent_only else cost_grid(plain)
    cs = list(corner_costs(plain)) if coherent_only else list(corner_costs(plain))
    pool = [c for c in grid if c not in cs]
    rng.shuffle(pool)
    return (cs + pool)[: max(n, 1)]


def random_cost(rng, plain=False, coherent_only=True, maxv=7):
    for _ in range(1000):
        mode = rng.random()
        if mode < 0.15:
            c = dict(DEFAULT)
        elif mode < 0.33 and mode >= 0.25:
            # transfers cheap against duplications AND full losses (speciations free): moving a whole subtree to another
            # lineage beats keeping it where its cheapest placement is
            c = {"spe": 0, "dup": rng.randint(2, 5), "hgt": 1, "floss": rng.randint(2, 4), "sloss": rng.randint(0, 2)}
            if rng.random() < 0.3:
                c["hgt"] = rng.randint(1, 2)
        elif mode < 0.25:
            # transfers strictly cheaper than speciations and duplications: scenarios made of transfers win, bounds that
            # count only speciations/duplications are wrong
            spe = rng.randint(1, 3)
            dup = rng.randint(spe, spe + 3)
            c = {"spe": spe, "dup": dup, "hgt": rng.randint(0, spe - 1), "floss": rng.randint(1, 3), "sloss": rng.randint(0, 2)}
        else:
            hi = maxv if mode > 0.6 else 3
            c = {
                "spe": rng.choice([0, 0, 0, 1, 2, rng.randint(0, hi)]),
                "dup": rng.randint(0, hi),
                "hgt": rng.choice([rng.randint(0, hi), rng.randint(0, hi), rng.randint(0, hi), "inf"]),
                "floss": rng.choice([0, 1, 1, 2, rng.randint(0, hi)]),
                "sloss": rng.choice([0, 1, 1, 2, rng.randint(0, hi)]),
            }
        if not coherent_only or coherent(_num(c), plain):
            return c
    return dict(DEFAULT)


def tie_cost(rng, plain=False):
    """Cost vectors biased to ties (C05)."""
    for _ in range(1000):
        c = {
            "spe": rng.choice([0, 0, 1]),
            "dup": rng.choice([0, 1, 1, 2]),
            "hgt": rng.choice([0, 1, 1, 2, "inf"]),
            "floss": rng.choice([0, 0, 1, 1, 2]),
            "sloss": rng.choice([0, 1, 1, 2]),
        }
        if rng.random() < 0.4 and c["hgt"] != "inf":
            c["hgt"] = c["dup"]
        if coherent(_num(c), plain):
            return c
    return dict(DEFAULT)


def leaf_assignments(nobj, nspecies):
    """Every assignment of object leaves to species leaves (species may stay empty)."""
    return itertools.product(range(nspecies), repeat=nobj)


def exhaustive_inputs(max_obj, max_sp, mirrored=True):
    """Every (object shape, species shape, leaf assignment); shapes in canonical and mirrored
    child order.  Yields (G nested, S nested, leafmap by name)."""
    for no in range(1, max_obj + 1):
        oshapes = RT.binary_shapes(no)
        if mirrored:
            oshapes = _with_mirrors(oshapes)
        for ns in range(1, max_sp + 1):
            sshapes = RT.binary_shapes(ns)
            if mirrored:
                sshapes = _with_mirrors(sshapes)
            for osh in oshapes:
                G = RT.fill_shape(osh, object_labels(no))
                for ssh in sshapes:
                    S = RT.fill_shape(ssh, species_labels(ns))
                    for asg in leaf_assignments(no, ns):
                        yield G, S, {f"g{i}": SPECIES[a] for i, a in enumerate(asg)}


def _with_mirrors(shapes):
    out = []
    seen = set()
    for s in shapes:
        for x in (s, RT.mirror(s)):
            if repr(x) not in seen:
                seen.add(repr(x))
                out.append(x)
    return out


def count_exhaustive(max_obj, max_sp, mirrored=True):
    return sum(1 for _ in exhaustive_inputs(max_obj, max_sp, mirrored))


def random_input(rng, max_obj, max_sp, min_obj=1, min_sp=1):
    no = rng.randint(min_obj, max_obj)
    ns = rng.randint(min_sp, max_sp)
    S = RT.random_tree_shape(rng, species_labels(ns))
    G = RT.random_tree_shape(rng, object_labels(no))
    # a few species tend to stay empty, some are crowded
    pool = species_labels(ns)
    if rng.random() < 0.3 and ns > 1:
        pool = rng.sample(pool, rng.randint(1, ns))
    leafmap = {g: rng.choice(pool) for g in object_labels(no)}
    return G, S, leafmap


def families(k):
    return [f"f{i}" for i in range(k)]


def random_syntenies(rng, leaves, nfam, ordered=True, consistent_p=0.8, min_len=1, min_fam=1):
    """Leaf syntenies over a universe of <= nfam families.  Ordered: mostly consistent with
    one hidden order, sometimes arbitrary orders (may be cyclic)."""
    k = rng.randint(min(min_fam, nfam), nfam)
    fams = families(k)
    hidden = list(fams)
    rng.shuffle(hidden)
    consistent = rng.random() < consistent_p
    syn = {}
    for g in leaves:
        n = rng.randint(min_len, k)
        sub = rng.sample(hidden, n)
        if ordered:
            if consistent:
                sub.sort(key=hidden.index)
            else:
                rng.shuffle(sub)
        else:
            sub.sort()
        syn[g] = sub
    return syn


def common_supersequence(rng, syn, extra_p=0.4):
    """A random linear extension of the leaf orders (None if cyclic).  With probability ``extra_p`` one or two
    families that no leaf carries are inserted at random positions: a prescribed root order only has to be a common
    supersequence of the leaves, and families lost everywhere change which runs merge / fall into a free end run."""
    from rv.refmodel.label import linear_extensions

    ext = linear_extensions([tuple(s) for s in syn.values()])
    if not ext:
        return None
    ro = list(rng.choice(ext))
    if rng.random() < extra_p:
        for k in range(rng.choice((1, 1, 2))):
            ro.insert(rng.randint(0, len(ro)), f"x{k}")
    return ro


def shared_family_syntenies(leaves):
    return {g: ["f0"] for g in leaves}


def all_subset_syntenies(leaves, fams, ordered_variants=False):
    """Every assignment of a non-empty family subset to each leaf; with ordered_variants every
    order of each subset."""
    options = []
    for r in range(1, len(fams) + 1):
        for comb in itertools.combinations(fams, r):
            if ordered_variants:
                options.extend(list(p) for p in itertools.permutations(comb))
            else:
                options.append(list(comb))
    for choice in itertools.product(options, repeat=len(leaves)):
        yield dict(zip(leaves, choice))


def noncoherent_cost(rng, plain=False):
    """Cost vectors outside the coherent region (validity-only properties)."""
    for _ in range(1000):
        c = {"spe": rng.randint(1, 6), "dup": rng.randint(0, 2), "hgt": rng.choice([0, 1, 2, 3, "inf"]), "floss": rng.choice([0, 0, 1]),
             "sloss": rng.randint(0, 4)}
        if not coherent(_num(c), plain):
            return c
    return {"spe": 5, "dup": 0, "hgt": 1, "floss": 0, "sloss": 3}


def clade_syntenies(rng, G_nested, nfam, ordered=False, p=0.6):
    """Leaf syntenies in which families are confined to (random) clades: each family is gained at a chosen
    node and carried by leaves on both sides of it, so internal gains and inheritance really occur."""
    from rv.refmodel.trees import T

    G = T(G_nested)
    fams = families(nfam)
    syn = {G.name[v]: [] for v in G.leaves()}
    for f in fams:
        v = rng.choice(G.nodes if rng.random() < 0.7 else G.internal() or G.nodes)
        if not G.children[v]:
            syn[G.name[v]].append(f)
            continue
        picked = []
        kids = G.children[v]
        for c in rng.sample(kids, 2):
            picked.append(rng.choice(G.leaves(c)))
        for l in G.leaves(v):
            if l not in picked and rng.random() < p:
                picked.append(l)
        for l in picked:
            syn[G.name[l]].append(f)
    base = fams[0]
    for k in syn:
        if not syn[k]:
            syn[k].append(base)
        syn[k] = sorted(set(syn[k]), key=fams.index)
    if ordered:
        hidden = list(fams)
        rng.shuffle(hidden)
        for k in syn:
            syn[k].sort(key=hidden.index)
    return syn


def deep_super_case(rng, ordered=False, min_obj=5, max_obj=7, max_fam=5, max_sp=4):
    """Deep labelled cases: 5-7 object leaves on few species (transfers and duplications are likely), sparse families
    each carried by 1-3 leaves anywhere in the tree (so gains at internal nodes, inheritance over several levels and
    families skipping a generation really occur), default or tie-biased costs."""
    ns = rng.choice([2, 2, 3, 3, max_sp])
    no = rng.randint(min_obj, max_obj)
    S = RT.random_tree_shape(rng, species_labels(ns))
    G = RT.random_tree_shape(rng, object_labels(no), kind=rng.choice(["cat", "rand", "rand"]))
    lm = {g: rng.choice(species_labels(ns)) for g in object_labels(no)}
    k = rng.randint(2, max_fam)
    fams = families(k)
    syn = {g: [] for g in lm}
    for f in fams:
        for g in rng.sample(list(lm), rng.randint(1, 3)):
            syn[g].append(f)
    hidden = list(fams)
    rng.shuffle(hidden)
    for g in syn:
        if not syn[g]:
            syn[g].append(rng.choice(fams))
        syn[g] = sorted(set(syn[g]), key=(hidden.index if ordered else fams.index))
    c = dict(DEFAULT) if rng.random() < 0.6 else tame(tie_cost(rng), no)
    return hostile_family_names(rng, {"kind": "super", "G": G, "S": S, "leafmap": lm, "syn": syn, "costs": c})


def chain_case(rng, max_chain=7):
    """Expensive-but-finite transfers that still pay off: a caterpillar object tree whose bottom cherry holds one
    'foreign' leaf (living in another deep clade of the species tree) under a chain of 3-7 ancestors whose other
    children all live near the donor; transfer cost 5-60 with small duplication / loss costs.  A single transfer then
    saves several losses at EVERY ancestor of the chain, so bounds of the kind 'a transfer never beats a duplication
    plus a few losses' are wrong exactly here."""
    ns = rng.choice([2, 4, 4, 6, 8])
    spl = species_labels(min(ns, 12))
    S = RT.balanced(list(spl)) if rng.random() < 0.6 else RT.random_tree_shape(rng, spl)
    home, foreign = spl[0], spl[-1]
    near = [s for s in spl[: max(1, len(spl) // 2)]]
    k = rng.randint(3, max_chain)
    labels = object_labels(k + 2)
    lm = {labels[0]: home, labels[1]: foreign}
    tree = [labels[0], labels[1]] if rng.random() < 0.5 else [labels[1], labels[0]]
    for i in range(k):
        lm[labels[i + 2]] = home if rng.random() < 0.7 else rng.choice(near)
        tree = [tree, labels[i + 2]] if rng.random() < 0.7 else [labels[i + 2], tree]
    c = {"spe": 0, "dup": rng.choice([0, 1, 1, 2]), "hgt": rng.choice([5, 6, 8, 10, 13, 17, 25, 40, 60]), "floss": rng.choice([1, 1, 2, 3]), "sloss": 1}
    return tree, S, lm, c


def block_dup_input(rng, max_leaves=10):
    """Object trees made of duplicated BLOCKS: a sub-tree and a copy of it (same species leaf by leaf) as siblings,
    nested and joined with other blocks - the shape whole-region duplications leave behind.  Both copies of a block
    cover exactly the same stretch of the species tree; blocks sit next to blocks that live in a single grandchild."""
    ns = rng.randint(3, 6)
    spl = species_labels(ns)
    S = RT.random_tree_shape(rng, spl, kind=rng.choice(["cat", "rand", "bal", "rand"]))

    def block(budget):
        r = rng.random()
        if budget <= 1 or r < 0.25:
            return rng.choice(spl)
        if r < 0.6 and budget >= 2:
            b = block(budget // 2)
            return [b, b]  # duplicated block (the copy is the same species pattern)
        k = rng.randint(1, budget - 1)
        return [block(k), block(budget - k)]

    shape = block(rng.randint(4, max_leaves))
    if isinstance(shape, str):
        shape = [shape, shape]
    counter = [0]
    lm = {}

    def name(x):
        if isinstance(x, str):
            g = f"g{counter[0]}"
            counter[0] += 1
            lm[g] = x
            return g
        return [name(c) for c in x]

    return name(shape), S, lm


HOSTILE_FAMILIES = ["g1", "g01", "g001", "g10", "a", "b", "ab", "ba", "16S", "5", "05", "cas1", "Cas1", "x_y", "x", "_y"]


def hostile_family_names(rng, case, p=0.15):
    """With probability p rename the families of a labelled case through a random injection into names that collide
    under careless keys (zero padding, case, concatenation, digit-leading).  The oracles never look at the names."""
    if not case.get("syn") or rng.random() >= p:
        return case
    fams = sorted({f for s in case["syn"].values() for f in s} | set(case.get("root_order") or ()))
    if len(fams) > len(HOSTILE_FAMILIES):
        return case
    ren = dict(zip(fams, rng.sample(HOSTILE_FAMILIES, len(fams))))
    case["syn"] = {g: [ren[f] for f in fs] for g, fs in case["syn"].items()}
    if case.get("root_order"):
        case["root_order"] = [ren[f] for f in case["root_order"]]
    case["family_names"] = "hostile"
    return case


def tame(c, nleaves, limit=5):
    """Cost vectors that make (almost) everything tie let the ALL sets explode combinatorially on larger inputs
    (millions of co-optimal solutions: memory and time, not a property of interest).  For inputs with more than
    ``limit`` object leaves make losses, duplications and transfers cost at least 1."""
    if nleaves <= limit:
        return c
    c = dict(c)
    if c["floss"] == 0:
        c["floss"] = 1
    if c["dup"] == 0:
        c["dup"] = 1
    if c["hgt"] == 0:
        c["hgt"] = 1
    if c.get("sloss") == 0:
        # free segmental losses: every super-labelling ties (seen: one 8-leaf / 4-family ordered input, sloss=0, whose
        # ALL set exhausted 6 GB after 12 minutes).  Raising sloss alone could leave the coherent region
        # (spe + 2*sloss <= dup + 2*floss), so the full-loss cost is raised with it.
        c["sloss"] = 1
        c["floss"] += 1
    return c
