"""Shard worker: one fresh process per shard.

usage: python -B -m rv.worker <job.json> <out.json>
The parent sets PYTHONPATH so that <repo>/src comes first; the worker asserts that
superrec2 is really imported from the tree under test.
"""
import faulthandler
import importlib
import json
import os
import sys
import time
import traceback


def main():
    job = json.load(open(sys.argv[1]))
    out_path = sys.argv[2]
    faulthandler.enable()
    try:
        # safety net: a shard that explodes (combinatorial ALL set) dies alone with MemoryError -> inconclusive
        import resource

        gb = float(os.environ.get("VERIF_SHARD_MEM_GB", "3"))
        resource.setrlimit(resource.RLIMIT_AS, (int(gb * 2**30), int(gb * 2**30)))
    except (ImportError, ValueError, OSError):
        pass
    if job.get("timeout"):
        # watchdog: dump stacks shortly before the parent kills us
        faulthandler.dump_traceback_later(max(1, job["timeout"] - 2), exit=False)
    from rv.core import Ctx, Inconclusive

    ctx = Ctx(job["prop"], job["tier"], job["seed"], job.get("shard", 0))
    if job.get("budget_s"):
        ctx.deadline = time.time() + job["budget_s"]
    res = {"ok": False}
    reach = {}
    try:
        repo = os.environ.get("VERIF_REPO", "/repo")
        src_root = os.path.realpath(os.path.join(repo, "src", "superrec2")) + os.sep
        if os.environ.get("VERIF_REACH", "1") == "1" and hasattr(sys, "monitoring"):
            # reach observer: which statements of the code under test the workload executed (DISABLE after first hit)
            mon = sys.monitoring
            try:
                mon.use_tool_id(mon.COVERAGE_ID, "rv-reach")

                def on_line(code, line):
                    fn = code.co_filename
                    if fn.startswith(src_root):
                        reach.setdefault(fn[len(src_root):], set()).add(line)
                    return mon.DISABLE

                mon.register_callback(mon.COVERAGE_ID, mon.events.LINE, on_line)
                mon.set_events(mon.COVERAGE_ID, mon.events.LINE)
            except ValueError:
                pass
        import superrec2

        src = os.path.realpath(os.path.dirname(superrec2.__file__))
        want = os.path.realpath(os.path.join(repo, "src", "superrec2"))
        if src != want:
            raise Inconclusive(f"superrec2 imported from {src}, expected {want}")
        mod = importlib.import_module(f"rv.props.{job['prop']}")
        mode = job.get("mode", "run")
        if mode == "run":
            if job.get("canaries", True) and hasattr(mod, "canaries"):
                mod.canaries(ctx)
            mod.run(ctx, job["spec"])
        elif mode == "replay":
            mod.replay(ctx, job["case"])
        elif mode == "known":
            mod.known(ctx, job["finding"])
        res = ctx.result()
        res["ok"] = True
    except Inconclusive as exc:
        res = ctx.result()
        res["ok"] = True
        res["inconclusive"].append(str(exc))
    except BaseException as exc:  # noqa: B902
        from rv.core import SkipCase

        if isinstance(exc, SkipCase):
            # a per-call budget hit outside a skippable check function: the shard is cut short, what it observed stands
            ctx.count("skipped_budget")
            ctx.notes.append(f"shard cut short, per-call budget exceeded: {exc}")
            res = ctx.result()
            res["ok"] = True
        else:
            res = ctx.result()
            res["ok"] = False
            res["error"] = "".join(traceback.format_exception(exc))[-6000:]
    res["reach"] = {k: sorted(v) for k, v in reach.items()}
    with open(out_path, "w") as fh:
        json.dump(res, fh)


if __name__ == "__main__":
    main()
