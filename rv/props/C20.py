"""C20 Triples, supertrees, disjoint sets."""
import collections
import copy
import itertools

from rv.core import Inconclusive
from rv.refmodel import trees as RT
from rv.refmodel.trees import T

META = {
    "rule": (
        "Each evaluation is one call of tree_to_triples / tree_from_triples / all_trees_from_triples / supertree / "
        "all_supertrees on real ete3 trees, or one union history (+ binary()) on a real DisjointSet, judged by R-TRIPLES "
        "('displays a triple' by definition on parent chains; all binary trees on the leaf set filtered by display) and "
        "R-DSU (partitions as sets of frozensets). Non-trivial: >=3 leaves / >=1 effective union; distinct = (tree clades | "
        "leaf count + triple set | union history)."
    ),
    "floors": {
        "quick": {"evaluations": 5000, "mon.roundtrip": 100, "mon.alltrees": 1000, "mon.onetree": 1000, "mon.supertree": 50, "mon.dsu": 1000},
        "thorough": {"evaluations": 30000, "mon.roundtrip": 1000, "mon.alltrees": 5000, "mon.onetree": 5000, "mon.supertree": 500, "mon.dsu": 11000},
    },
    "exhaustive": {"quick": True, "thorough": True},
    "space": {"quick": "all labelled binary trees <=6 leaves; all subsets of the triples on 3 leaves and all 4096 subsets on 4 leaves; all union histories <=4 on 5 elements (11 111)", "thorough": "all labelled binary trees <=7 leaves; all 4096 triple subsets on 4 leaves, random subsets on 5-6 leaves; all union histories <=4 on 5 elements (11 111)"},
    "assumptions": ["triples are passed in the canonical form produced by the package (cherry first, lexicographically ordered)"],
    "timeout": {"quick": 420, "thorough": 3600},
}

LEAVES = "abcdefg"
ODD_NAMES = ["10", "9", "2", "1a", "B", "a", "_x"]  # lexicographic order differs from numeric order / case
GLUED_NAMES = ["a", "bc", "ab", "c", "b", "abc", "1", "11", "x", "x1"]  # names that are prefixes / concatenations of one another


def plan(tier, seed):
    q = tier == "quick"
    n = 16
    specs = [{"kind": "mix", "i": i, "n": n, "maxleaves": 6 if q else 7, "sub4_stride": 1, "nrand": 250 if q else 600, "hist": 4, "nsuper": 30 if q else 100, "nbigtriples": 3 if q else 60, "ncomp": 14 if q else 150} for i in range(n)]
    return specs


# ----------------------------------------------------------------- R-TRIPLES
def displays(M, names, triple):
    """ab|c : lca(a,b) strictly below lca(a,c) = lca(b,c)."""
    a, b, c = (names[x] for x in triple)
    ab, ac, bc = M.lca(a, b), M.lca(a, c), M.lca(b, c)
    return ac == bc and M.is_strict_anc(ac, ab)


def all_triples(leaves):
    res = []
    for x, y, z in itertools.combinations(sorted(leaves), 3):
        res += [(x, y, z), (x, z, y), (y, z, x)]
    return res


def model_of(nested):
    M = T(nested)
    return M, {M.name[v]: v for v in M.leaves()}


def nested_of_ete(tree):
    if tree.is_leaf():
        return tree.name
    return [nested_of_ete(c) for c in tree.children]


def ete_of(nested):
    from ete3 import Tree

    def nw(x):
        return x if isinstance(x, str) else "(" + ",".join(nw(c) for c in x) + ")"

    return Tree(nw(nested) + ";", format=1)


_BIN_CACHE = {}


def binary_trees_on(leaves):
    key = tuple(sorted(leaves))
    if key not in _BIN_CACHE:
        res = []
        for nested in RT.all_labelled_binary(list(key)):
            M, names = model_of(nested)
            res.append((M.clades(), M, names))
        _BIN_CACHE[key] = res
    return _BIN_CACHE[key]


def model_all_trees(leaves, triples):
    return [cl for cl, M, names in binary_trees_on(leaves) if all(displays(M, names, t) for t in triples)]


def tree_snapshot(tree):
    return tree.write(format=9), [n.name for n in tree.traverse()]


def check_roundtrip(ctx, nested):
    import superrec2.utils.trees as UT

    case = {"kind": "roundtrip", "tree": RT.tolist(nested)}
    tree = ete_of(nested)
    M, names = model_of(nested)
    snap = tree_snapshot(tree)
    try:
        leaves, triples = UT.tree_to_triples(tree)
        if tree_snapshot(tree) != snap:
            ctx.viol("C20.mutation", case, "tree_to_triples modified its input tree")
        if sorted(leaves) != sorted(names):
            ctx.viol("C20.roundtrip", case, f"tree_to_triples lost leaves: {leaves}")
        for t in triples:
            if not displays(M, names, t):
                ctx.viol("C20.roundtrip", case, f"emitted triple {t} is not displayed by the source tree")
        rebuilt = UT.tree_from_triples(leaves, triples)
        if rebuilt is None:
            ctx.viol("C20.roundtrip", case, "tree_from_triples(tree_to_triples(t)) is None")
        else:
            R, _ = model_of(nested_of_ete(rebuilt))
            if R.clades() != M.clades():
                ctx.viol("C20.roundtrip", case, f"rebuilt tree has different clades: {sorted(map(sorted, R.clades()))}")
    except Exception as exc:  # noqa: BLE001
        ctx.viol("C20.roundtrip", case, f"raised {type(exc).__name__}: {exc}")
    # history: two leaves of the SAME tree object are exchanged in place and the tree is decomposed again
    lv = list(tree.iter_leaves())
    if len(lv) >= 3:
        a = lv[0]
        b = next((x for x in reversed(lv) if x.up is not a.up), None)
        if b is not None:
            pa, pb = a.up, b.up
            ia, ib = pa.children.index(a), pb.children.index(b)
            pa.children[ia], pb.children[ib] = b, a
            a.up, b.up = pb, pa
            nested2 = nested_of_ete(tree)
            M2, names2 = model_of(nested2)
            hist = dict(case, history=f"leaves {a.name} and {b.name} exchanged in place, same tree object decomposed again")
            try:
                leaves2, triples2 = UT.tree_to_triples(tree)
                ctx.count("mon.after_leaf_exchange")
                bad = [t for t in triples2 if not displays(M2, names2, t)]
                if bad:
                    ctx.viol("C20.roundtrip", hist, f"after an in-place leaf exchange, emitted triple {bad[0]} is not displayed by the tree as it is now")
                reb = UT.tree_from_triples(leaves2, triples2)
                if reb is None or model_of(nested_of_ete(reb))[0].clades() != M2.clades():
                    ctx.viol("C20.roundtrip", hist, "after an in-place leaf exchange, decomposing and rebuilding does not give the clades of the tree as it is now")
            except Exception as exc:  # noqa: BLE001
                ctx.viol("C20.roundtrip", hist, f"raised {type(exc).__name__}: {exc}")
    ctx.count("evaluations", 2)
    ctx.count("mon.roundtrip")
    ctx.sig(("rt", tuple(sorted(map(tuple, map(sorted, M.clades()))))), len(names) >= 3)
    if len(names) >= 4:
        ctx.sample(case)


def check_big_triples(ctx, rng, n):
    """Leaf sets far beyond enumeration (12-20 leaves): the triples of a hidden binary tree in the order the package's
    own decomposition emits them, a few of them dropped.  Soundness of every returned tree is checked one by one (leaf set,
    binary, displays every triple, all distinct) and the hidden tree - which displays every triple - must be among them;
    the single-tree routine must return a displaying tree."""
    import superrec2.utils.trees as UT

    names = [f"a{i}" for i in range(n)]
    hidden = RT.random_binary(rng, names) if rng.random() < 0.5 else RT.balanced(rng.sample(names, n))
    M, nm = model_of(hidden)
    try:
        leaves, triples = UT.tree_to_triples(ete_of(hidden))
    except Exception as exc:  # noqa: BLE001
        ctx.viol("C20.roundtrip", {"kind": "bigtriples", "tree": RT.tolist(hidden)}, f"tree_to_triples raised {type(exc).__name__}: {exc}")
        return
    triples = [tuple(t) for t in triples]
    for _ in range(rng.choice([0, 1, 1])):
        if len(triples) > 3:
            triples.pop(rng.randrange(len(triples)))
    case = {"kind": "bigtriples", "leaves": list(leaves), "triples": [list(t) for t in triples], "hidden": RT.tolist(hidden)}
    import signal

    class _Budget(BaseException):
        pass

    def _alarm(signum, frame):
        raise _Budget()

    old = signal.signal(signal.SIGALRM, _alarm)
    signal.setitimer(signal.ITIMER_REAL, 5)
    try:
        got_trees = UT.all_trees_from_triples(list(leaves), list(triples))
        one = UT.tree_from_triples(list(leaves), list(triples))
    except (_Budget, MemoryError):
        ctx.count("skipped_budget")  # an under-determined set with a huge number of trees: not observed
        return
    except Exception as exc:  # noqa: BLE001
        ctx.viol("C20.alltrees", case, f"raised {type(exc).__name__}: {exc}")
        return
    finally:
        signal.setitimer(signal.ITIMER_REAL, 0)
        signal.signal(signal.SIGALRM, old)
    ctx.count("evaluations", 2)
    ctx.count("mon.big_triple_sets")
    if len(got_trees) > 4000:
        ctx.count("skipped_large")
        return
    seen = set()
    for t in got_trees:
        R, rn = model_of(nested_of_ete(t))
        if sorted(rn) != sorted(names) or not R.is_binary():
            ctx.viol("C20.alltrees", case, "all_trees_from_triples returned a tree that is not binary or has another leaf set")
            break
        bad = next((tr for tr in triples if not displays(R, rn, tr)), None)
        if bad is not None:
            ctx.viol("C20.alltrees", case, f"all_trees_from_triples returned a tree that does not display the triple {bad} ({len(got_trees)} trees on {n} leaves)")
            break
        if R.clades() in seen:
            ctx.viol("C20.alltrees", case, "a tree is returned more than once")
            break
        seen.add(R.clades())
    else:
        if M.clades() not in seen:
            ctx.viol("C20.alltrees", case, f"the hidden tree, which displays every given triple, is missing from the {len(got_trees)} trees returned for {n} leaves")
    if one is None:
        ctx.viol("C20.onetree", case, "tree_from_triples returned None although the hidden tree displays every triple")
    else:
        R1, rn1 = model_of(nested_of_ete(one))
        bad = next((tr for tr in triples if not displays(R1, rn1, tr)), None)
        if bad is not None or sorted(rn1) != sorted(names):
            ctx.viol("C20.onetree", case, f"tree_from_triples returned a tree that does not display {bad}")
    ctx.sig(("bigtriples", n, len(triples), min(len(got_trees), 50)), True)


def grow_oracle(order, triples, cap=1000):
    """Exact, enumeration-free reference for medium leaf sets: every binary tree on k+1 leaves is obtained in exactly one
    way by grafting the new leaf onto an edge of (or above) its restriction to the first k leaves, and a tree displaying a
    triple set restricts to a tree displaying the triples among the leaves present.  So growing leaf by leaf and filtering
    by the triples that have become active enumerates each displaying tree exactly once.  Returns a Counter of clade sets,
    or None when more than `cap` partial trees are alive (the case is then not observed)."""

    def insert(tree, leaf):
        yield (tree, leaf)
        if not isinstance(tree, str):
            for sub in insert(tree[0], leaf):
                yield (sub, tree[1])
            for sub in insert(tree[1], leaf):
                yield (tree[0], sub)

    def clades_of(tree, out):
        if isinstance(tree, str):
            return frozenset([tree])
        here = clades_of(tree[0], out) | clades_of(tree[1], out)
        out.append(here)
        return here

    def shows(cl, t):
        a, b, c = t
        return any(a in x and b in x and c not in x for x in cl)

    if any(len(set(t)) != 3 for t in triples):
        return collections.Counter()  # a triple with a repeated leaf is displayed by no tree
    trees = [order[0]]
    keys = [frozenset()]
    for k in range(1, len(order)):
        present = set(order[: k + 1])
        new = order[k]
        active = [t for t in triples if new in t and set(t) <= present]
        nxt, keys = [], []
        for tree in trees:
            for cand in insert(tree, new):
                cl = []
                clades_of(cand, cl)
                if all(shows(cl, t) for t in active):
                    nxt.append(cand)
                    keys.append(frozenset(cl))
                    if len(nxt) > cap:
                        return None
        trees = nxt
        if not trees:
            return collections.Counter()
    return collections.Counter(keys)


def component_case(rng):
    """Triple sets whose Aho graph has several components of very different sizes, the unions inside a component happening
    in a prescribed order (binomial merging, chains, stars) through triples whose third leaf lies in ANOTHER component:
    union-by-rank then builds parent chains of different depths, and the two-block coarsenings re-root them.  All triples
    are displayed by a hidden binary tree in which every component is a clade."""
    sizes = rng.choice([[2, 4, 8, 1], [3, 4, 8, 1], [1, 2, 4, 8], [8, 4, 2, 1], [2, 4, 8], [2, 2, 4, 4, 1], [3, 5, 6], [1, 1, 2, 4, 4],
                        [2, 4, 6, 1], [4, 8, 2, 1], [2, 3, 4, 5], [1, 2, 3, 4, 4]])
    if rng.random() < 0.4:
        sizes = sizes[:]
        rng.shuffle(sizes)
    comps = [[f"{chr(97 + ci)}{k + 1}" for k in range(sz)] for ci, sz in enumerate(sizes)]
    subtrees = [RT.random_binary(rng, c) if len(c) > 1 else c[0] for c in comps]
    triples = []
    pin = rng.random() < 0.7
    for ci, c in enumerate(comps):
        others = [x for cj, d in enumerate(comps) if cj != ci for x in d]
        mode = rng.choice(["binomial", "binomial", "chain", "star", "random"])
        pairs = []
        if mode == "binomial":
            step = 1
            while step < len(c):
                pairs += [(c[i], c[i + step]) for i in range(0, len(c) - step, 2 * step)]
                step *= 2
        elif mode == "chain":
            pairs = [(c[i], c[i + 1]) for i in range(len(c) - 1)]
        elif mode == "star":
            hub = rng.randrange(len(c))
            pairs = [(c[hub], c[i]) for i in range(len(c)) if i != hub]
        else:
            perm = rng.sample(c, len(c))
            pairs = [(perm[i], perm[rng.randrange(i + 1, len(perm))]) for i in range(len(perm) - 1)]
        if rng.random() < 0.3:
            pairs = [(b, a) for a, b in pairs]
        comp_tr = []
        for a, b in pairs:
            if pin:
                # one leaf of every other component: every component is then a clade of every displaying tree
                outs = [rng.choice(comps[cj]) if rng.random() < 0.4 else comps[cj][0] for cj in range(len(comps)) if cj != ci]
            else:
                outs = rng.sample(others, min(len(others), rng.choice([1, 1, 2, 3])))
            comp_tr += [tuple(sorted((a, b))) + (o,) for o in outs]
        inner = []
        if len(c) >= 3:
            M, nm = model_of(subtrees[ci])
            inner = [t for t in all_triples(c) if displays(M, nm, t)]
            r = rng.random()
            if r < 0.5:
                inner = RT_min_triples(subtrees[ci])
            elif r < 0.6 and len(c) <= 4:
                inner = rng.sample(inner, rng.randint(0, min(len(inner), len(c))))
            else:
                inner = RT_min_triples(subtrees[ci])
                for _ in range(rng.randint(1, 2)):
                    if inner:
                        inner.pop(rng.randrange(len(inner)))
        triples.append((comp_tr, inner))
    flat = []
    order_mode = rng.choice(["cross_first", "by_component", "by_component_rev", "shuffled"])
    if order_mode == "cross_first":
        for ct, _ in triples:
            flat += ct
        for _, it in triples:
            flat += it
    elif order_mode in ("by_component", "by_component_rev"):
        seq = triples if order_mode == "by_component" else triples[::-1]
        for ct, it in seq:
            flat += ct + it
    else:
        for ct, it in triples:
            flat += ct + it
        rng.shuffle(flat)
    seen = set()
    flat = [t for t in flat if not (t in seen or seen.add(t))]
    leaves = [x for c in comps for x in c]
    lm = rng.choice(["grouped", "grouped", "reversed_groups", "shuffled"])
    if lm == "reversed_groups":
        leaves = [x for c in comps[::-1] for x in c]
    elif lm == "shuffled":
        rng.shuffle(leaves)
    hidden = subtrees[0]
    for st in subtrees[1:]:
        hidden = [hidden, st] if rng.random() < 0.5 else [st, hidden]
    return leaves, flat, hidden, comps


def RT_min_triples(nested):
    """One triple per (internal node, child subtree pair) chain: enough to pin the tree down (BreakUp-style)."""
    res = []

    def rec(x):
        if isinstance(x, str):
            return [x]
        l, r = rec(x[0]), rec(x[1])
        for inner, outer in ((l, r), (r, l)):
            for i in range(len(inner) - 1):
                res.append(tuple(sorted((inner[i], inner[i + 1]))) + (outer[0],))
        return l + r

    rec(nested)
    return res


def check_component_triples(ctx, leaves, triples, hidden=None, budget_s=8):
    """all_trees_from_triples / tree_from_triples on 8-17 leaves against the grow-and-filter reference (exact set, each
    tree once)."""
    import signal

    import superrec2.utils.trees as UT

    case = {"kind": "comptriples", "leaves": list(leaves), "triples": [list(t) for t in triples], "hidden": RT.tolist(hidden) if hidden is not None else None}
    comps_first = sorted(leaves, key=lambda x: (x[:1], len(x), x))
    want = grow_oracle(comps_first, [tuple(t) for t in triples])
    if want is None:
        ctx.count("skipped_large")
        return
    if hidden is not None:
        H, _ = model_of(hidden)
        if frozenset(c for c in H.clades() if len(c) >= 2) not in want:
            raise Inconclusive("C20 grow-and-filter reference does not contain the hidden tree it was built from")

    class _Budget(BaseException):
        pass

    def _alarm(signum, frame):
        raise _Budget()

    old = signal.signal(signal.SIGALRM, _alarm)
    signal.setitimer(signal.ITIMER_REAL, budget_s)
    try:
        got_trees = UT.all_trees_from_triples(list(leaves), [tuple(t) for t in triples])
        one = UT.tree_from_triples(list(leaves), [tuple(t) for t in triples])
    except (_Budget, MemoryError):
        ctx.count("skipped_budget")
        return
    except Exception as exc:  # noqa: BLE001
        ctx.viol("C20.alltrees", case, f"raised {type(exc).__name__}: {exc}")
        return
    finally:
        signal.setitimer(signal.ITIMER_REAL, 0)
        signal.signal(signal.SIGALRM, old)
    ctx.count("evaluations", 2)
    ctx.count("mon.component_triple_sets")
    got = collections.Counter()
    for t in got_trees:
        R, rn = model_of(nested_of_ete(t))
        if not R.is_binary() or sorted(rn) != sorted(leaves):
            ctx.viol("C20.alltrees", case, "all_trees_from_triples returned a tree that is not binary or has another leaf set")
            return
        got[frozenset(c for c in R.clades() if len(c) >= 2)] += 1
    want_keys = set(want)
    got_keys = set(got)
    if any(v > 1 for v in got.values()):
        ctx.viol("C20.alltrees", case, "a tree is returned more than once")
    extra, missing = got_keys - want_keys, want_keys - got_keys
    if extra:
        w = next(iter(extra))
        bad = next((tr for tr in triples if not any(tr[0] in c and tr[1] in c and tr[2] not in c for c in w)), None)
        ctx.viol("C20.alltrees", case, f"{len(extra)} of the {len(got_keys)} returned trees on {len(leaves)} leaves do not display every triple (e.g. {bad}); the reference has {len(want_keys)}")
    if missing:
        ctx.viol("C20.alltrees", case, f"{len(missing)} displaying binary tree(s) missing: {len(got_keys)} returned, the reference has {len(want_keys)} on {len(leaves)} leaves")
    if one is None:
        if want_keys:
            ctx.viol("C20.onetree", case, f"tree_from_triples is None although {len(want_keys)} displaying tree(s) exist")
    else:
        R1, rn1 = model_of(nested_of_ete(one))
        bad = next((tr for tr in triples if not displays(R1, rn1, tuple(tr))), None)
        if not want_keys:
            ctx.viol("C20.onetree", case, "tree_from_triples returned a tree for an inconsistent triple set")
        elif bad is not None or sorted(rn1) != sorted(leaves):
            ctx.viol("C20.onetree", case, f"tree_from_triples returned a tree that does not display {bad}")
    ctx.sig(("comptriples", len(leaves), len(triples), min(len(want_keys), 200)), True)
    if len(want_keys) > 1:
        ctx.sample(case)


def _leaves_of(x):
    if isinstance(x, str):
        yield x
    else:
        for c in x:
            yield from _leaves_of(c)


def check_triple_set(ctx, leaves, triples):
    import superrec2.utils.trees as UT

    case = {"kind": "triples", "leaves": list(leaves), "triples": [list(t) for t in triples]}
    want = model_all_trees(leaves, triples)
    want_c = collections.Counter(want)
    try:
        got_trees = UT.all_trees_from_triples(list(leaves), list(triples))
        got = []
        for t in got_trees:
            R, _ = model_of(nested_of_ete(t))
            if not R.is_binary():
                ctx.viol("C20.alltrees", case, "all_trees_from_triples returned a non-binary tree")
            got.append(R.clades())
        got_c = collections.Counter(got)
        rep = [k for k, n in got_c.items() if n > 1]
        if rep:
            ctx.viol("C20.alltrees", case, f"a tree is returned {got_c[rep[0]]} times")
        missing = set(want_c) - set(got_c)
        extra = set(got_c) - set(want_c)
        if missing:
            ctx.viol("C20.alltrees", case, f"{len(missing)} displaying binary tree(s) missing (model has {len(want_c)})")
        if extra:
            ctx.viol("C20.alltrees", case, f"{len(extra)} returned tree(s) do not display every triple / are not on the leaf set")
        ctx.count("mon.alltrees")
        ctx.count("evaluations")
    except Exception as exc:  # noqa: BLE001
        ctx.viol("C20.alltrees", case, f"all_trees_from_triples raised {type(exc).__name__}: {exc}")
    try:
        one = UT.tree_from_triples(list(leaves), list(triples))
        if one is None:
            if want:
                ctx.viol("C20.onetree", case, f"tree_from_triples is None although {len(want)} displaying tree(s) exist")
        else:
            R, names = model_of(nested_of_ete(one))
            if sorted(names) != sorted(leaves):
                ctx.viol("C20.onetree", case, "tree_from_triples returned a tree on a different leaf set")
            elif not want:
                ctx.viol("C20.onetree", case, "tree_from_triples returned a tree for an inconsistent triple set")
            else:
                for t in triples:
                    if not displays(R, names, t):
                        ctx.viol("C20.onetree", case, f"returned tree does not display {t}")
                        break
        ctx.count("mon.onetree")
        ctx.count("evaluations")
    except Exception as exc:  # noqa: BLE001
        ctx.viol("C20.onetree", case, f"tree_from_triples raised {type(exc).__name__}: {exc}")
    ctx.sig(("ts", len(leaves), tuple(sorted(triples)) if len(leaves) <= 4 else (len(triples), len(want))), len(leaves) >= 3)
    if len(triples) >= 2 and want:
        ctx.sample(case)


def check_supertree(ctx, rng, nleaves):
    import superrec2.utils.trees as UT

    leaves = list(LEAVES[:nleaves])
    nested = RT.random_binary(rng, leaves)
    M, names = model_of(nested)

    def restrict(nst, keep):
        if isinstance(nst, str):
            return nst if nst in keep else None
        ch = [x for x in (restrict(c, keep) for c in nst) if x is not None]
        if not ch:
            return None
        return ch[0] if len(ch) == 1 else ch

    subsets = []
    for _ in range(rng.randint(2, 3)):
        keep = set(rng.sample(leaves, rng.randint(2, nleaves)))
        subsets.append(sorted(keep))
    parts = [restrict(nested, set(k)) for k in subsets]
    case = {"kind": "supertree", "common": RT.tolist(nested), "parts": [RT.tolist(p) for p in parts]}
    trees = [ete_of(p) for p in parts]
    snaps = [tree_snapshot(t) for t in trees]
    union = sorted(set().union(*subsets))
    try:
        st = UT.supertree(trees)
        if [tree_snapshot(t) for t in trees] != snaps:
            ctx.viol("C20.mutation", case, "supertree modified an input tree")
        if st is None:
            ctx.viol("C20.supertree", case, "supertree of restrictions of a common tree is None")
        else:
            R, rn = model_of(nested_of_ete(st))
            if sorted(rn) != union:
                ctx.viol("C20.supertree", case, "supertree is not on the union of the leaf sets")
            else:
                for p in parts:
                    if isinstance(p, str):
                        continue
                    P, pn = model_of(p)
                    for t in all_triples(pn):
                        if displays(P, pn, t) and not displays(R, rn, t):
                            ctx.viol("C20.supertree", case, f"supertree does not display {t} of an input tree")
                            break
        alls = UT.all_supertrees(trees)
        if not alls:
            ctx.viol("C20.supertree", case, "all_supertrees of restrictions of a common tree is empty")
        seen = collections.Counter()
        for t in alls:
            R, rn = model_of(nested_of_ete(t))
            seen[R.clades()] += 1
            ok = sorted(rn) == union and R.is_binary()
            for p in parts:
                if isinstance(p, str) or not ok:
                    continue
                P, pn = model_of(p)
                ok &= all(displays(R, rn, t) for t in all_triples(pn) if displays(P, pn, t))
            if not ok:
                ctx.viol("C20.supertree", case, "all_supertrees returned a tree that does not display every input")
                break
        if any(n > 1 for n in seen.values()):
            ctx.viol("C20.supertree", case, "all_supertrees returned a tree twice")
        # exactness: every binary tree on the union displaying all inputs is returned
        want = set()
        for cl, B, bn in binary_trees_on(union):
            good = True
            for p in parts:
                if isinstance(p, str):
                    continue
                P, pn = model_of(p)
                good &= all(displays(B, bn, t) for t in all_triples(pn) if displays(P, pn, t))
            if good:
                want.add(cl)
        if set(seen) != want:
            ctx.viol("C20.supertree", case, f"all_supertrees returned {len(seen)} trees, model has {len(want)}")
    except Exception as exc:  # noqa: BLE001
        ctx.viol("C20.supertree", case, f"raised {type(exc).__name__}: {exc}")
    ctx.count("mon.supertree")
    ctx.count("evaluations", 2)
    ctx.sig(("st", nleaves, tuple(map(tuple, subsets))), True)


# --------------------------------------------------------------------- R-DSU
def model_partition(n, history):
    blocks = [frozenset([i]) for i in range(n)]
    rets = []
    for a, b in history:
        ba = next(x for x in blocks if a in x)
        bb = next(x for x in blocks if b in x)
        if ba == bb:
            rets.append(False)
        else:
            blocks = [x for x in blocks if x not in (ba, bb)] + [ba | bb]
            rets.append(True)
    return frozenset(blocks), rets


def two_block_coarsenings(partition):
    blocks = sorted(partition, key=lambda b: min(b))
    res = set()
    k = len(blocks)
    if k < 2:
        return res
    for mask in range(1, 1 << (k - 1)):  # block 0 always on side A; side B non-empty
        A = frozenset().union(*[blocks[i] for i in range(k) if i == 0 or not (mask >> (i - 1) & 1)])
        Bs = frozenset().union(*[blocks[i] for i in range(1, k) if mask >> (i - 1) & 1])
        res.add(frozenset([A, Bs]))
    return res


def read_partition(ds, n):
    groups = ds.to_list()
    return frozenset(frozenset(g) for g in groups), groups


def check_dsu(ctx, n, history, binary_first=False):
    from superrec2.utils.disjoint_set import DisjointSet

    case = {"kind": "dsu", "n": n, "history": [list(h) for h in history], "binary_first": binary_first}
    want, want_rets = model_partition(n, history)
    try:
        ds = DisjointSet(n)
        rets = [ds.unite(a, b) for a, b in history]
        if rets != want_rets:
            ctx.viol("C20.dsu", case, f"unite return values {rets}, expected {want_rets}")
        if binary_first:
            # binary() straight after the unions: no find()/to_list() has compressed the parent chains yet
            ctx.count("mon.dsu_binary_on_uncompressed")
            got_bins = collections.Counter()
            for b in ds.binary():
                # element-wise reading first (find), then the grouped reading
                by_find = {}
                for x in range(n):
                    by_find.setdefault(b.find(x), set()).add(x)
                pf = frozenset(frozenset(g) for g in by_find.values())
                p, _ = read_partition(b, n)
                if pf != p:
                    ctx.viol("C20.dsu", case, f"a binary() result read by find() gives {sorted(map(sorted, pf))}, to_list() gives {sorted(map(sorted, p))}")
                got_bins[p] += 1
                if len(b) != 2:
                    ctx.viol("C20.dsu", case, f"binary() result reports {len(b)} groups")
            want_bins = two_block_coarsenings(want)
            if any(k > 1 for k in got_bins.values()):
                ctx.viol("C20.dsu", case, "binary() on a freshly united structure returned a coarsening twice")
            if set(got_bins) != want_bins:
                ctx.viol("C20.dsu", case, f"binary() on a freshly united structure returned {len(got_bins)} distinct coarsenings, expected {len(want_bins)}")
        got, groups = read_partition(ds, n)
        if got != want or sum(len(g) for g in groups) != n:
            ctx.viol("C20.dsu", case, f"partition {sorted(map(sorted, got))}, expected {sorted(map(sorted, want))}")
        if len(ds) != len(want):
            ctx.viol("C20.dsu", case, f"len() = {len(ds)}, expected {len(want)} blocks")
        for a in range(n):
            for b in range(n):
                same = any(a in blk and b in blk for blk in want)
                if (ds.find(a) == ds.find(b)) != same:
                    ctx.viol("C20.dsu", case, f"find({a}) == find({b}) is {not same}")
        before = read_partition(ds, n)[0]
        bins = ds.binary()
        after = read_partition(ds, n)[0]
        if after != before or len(ds) != len(want):
            ctx.viol("C20.dsu", case, "binary() changed the receiver")
        got_bins = collections.Counter()
        for b in bins:
            p, _ = read_partition(b, n)
            got_bins[p] += 1
            if len(b) != 2:
                ctx.viol("C20.dsu", case, f"binary() result reports {len(b)} groups")
        want_bins = two_block_coarsenings(want)
        if any(k > 1 for k in got_bins.values()):
            ctx.viol("C20.dsu", case, "binary() returned a coarsening twice")
        if set(got_bins) != want_bins:
            ctx.viol("C20.dsu", case, f"binary() returned {len(got_bins)} distinct coarsenings, expected {len(want_bins)}")
    except Exception as exc:  # noqa: BLE001
        ctx.viol("C20.dsu", case, f"raised {type(exc).__name__}: {exc}")
    ctx.count("mon.dsu")
    ctx.count("evaluations")
    ctx.sig(("dsu", n, tuple(history)), any(want_rets))
    if len(history) >= 3 and len(want) >= 3:
        ctx.sample(case)


def canaries(ctx):
    M, names = model_of([["a", "b"], "c"])
    ok = displays(M, names, ("a", "b", "c")) and not displays(M, names, ("a", "c", "b"))
    S, sn = model_of(["a", "b", "c"])
    ok &= not displays(S, sn, ("a", "b", "c"))
    ok &= len(model_all_trees("abc", [])) == 3 and len(model_all_trees("abcd", [])) == 15
    ok &= len(model_all_trees("abc", [("a", "b", "c"), ("a", "c", "b")])) == 0
    g = grow_oracle(list("abcd"), [])
    ok &= g is not None and len(g) == 15 and set(g.values()) == {1}
    g = grow_oracle(list("abcde"), [("a", "b", "c"), ("d", "e", "a")])
    w = collections.Counter(frozenset(c for c in cl if len(c) >= 2) for cl in model_all_trees("abcde", [("a", "b", "c"), ("d", "e", "a")]))
    ok &= g == w and len(w) > 0
    ok &= len(grow_oracle(list("abc"), [("a", "b", "c"), ("a", "c", "b")])) == 0
    p, r = model_partition(4, [(0, 1), (1, 0), (2, 3)])
    ok &= r == [True, False, True] and len(p) == 2 and len(two_block_coarsenings(p)) == 1
    ok &= len(two_block_coarsenings(model_partition(4, [])[0])) == 7
    ctx.count("canaries")
    if not ok:
        raise Inconclusive("C20 reference model canary failed")


def run(ctx, spec):
    idx = 0
    for n in range(1, spec["maxleaves"] + 1):
        for nested in RT.all_labelled_binary(list(LEAVES[:n])):
            idx += 1
            if idx % spec["n"] != spec["i"]:
                continue
            # also a mirrored presentation
            tree = nested if idx % 2 else RT.tolist(RT.mirror(_tup(nested)))
            if idx % 3 == 0:
                tree = _rename_leaves(tree, dict(zip(LEAVES, ODD_NAMES)))
            elif idx % 3 == 1 and n >= 3:
                tree = _rename_leaves(tree, dict(zip(LEAVES, GLUED_NAMES[(idx // 3) % 4:])))
            check_roundtrip(ctx, tree)
            if ctx.too_many():
                return
    for n, stride in ((3, 1), (4, spec["sub4_stride"])):
        trip = all_triples(LEAVES[:n])
        for bits in range(1 << len(trip)):
            idx += 1
            if bits % stride != 0 and n == 4:
                continue
            if idx % spec["n"] != spec["i"]:
                continue
            sub = [t for k, t in enumerate(trip) if bits >> k & 1]
            check_triple_set(ctx, list(LEAVES[:n]), sub)
            if n == 4 and bits % 5 == 0:
                ren = dict(zip(LEAVES, GLUED_NAMES[bits % 3:]))
                check_triple_set(ctx, [ren[x] for x in LEAVES[:n]], [tuple(ren[x] for x in t) for t in sub])
            if ctx.too_many():
                return
    rng = ctx.rng("rand")
    for _ in range(spec["nrand"]):
        n = rng.choice([5, 5, 6])
        r = rng.random()
        leaves = list(LEAVES[:n]) if r < 0.5 else (ODD_NAMES[:n] if r < 0.7 else rng.sample(GLUED_NAMES, n))
        if r >= 0.7:
            ctx.count("glued_leaf_names")
        if rng.random() < 0.7:
            # mostly consistent: triples of a hidden tree, sometimes plus noise
            M, names = model_of(RT.random_binary(rng, leaves))
            pool = [t for t in all_triples(leaves) if displays(M, names, t)]
            sub = rng.sample(pool, rng.randint(0, min(len(pool), 8)))
            if rng.random() < 0.3:
                sub.append(rng.choice(all_triples(leaves)))
        else:
            sub = rng.sample(all_triples(leaves), rng.randint(1, 6))
        check_triple_set(ctx, leaves, sorted(set(sub)))
    for _ in range(spec.get("nbigtriples", 12)):
        check_big_triples(ctx, rng, rng.choice([12, 14, 15, 16, 16, 17]))
    for _ in range(spec.get("ncomp", 0)):
        leaves, triples, hidden, _comps = component_case(rng)
        check_component_triples(ctx, leaves, triples, hidden)
    for _ in range(spec["nsuper"]):
        check_supertree(ctx, rng, rng.choice([4, 5, 5, 6]))
    pairs = list(itertools.combinations(range(5), 2))
    for L in range(0, spec["hist"] + 1):
        for history in itertools.product(pairs, repeat=L):
            idx += 1
            if idx % spec["n"] != spec["i"]:
                continue
            check_dsu(ctx, 5, history)
            if ctx.too_many():
                return
    for _ in range(spec["nrand"] * 2):
        n = rng.randint(1, 12)
        history = [(rng.randrange(n), rng.randrange(n)) for _ in range(rng.randint(0, 14))]
        if rng.random() < 0.3 and n >= 8:
            # balanced merging: ranks tie repeatedly
            history = [(0, 1), (2, 3), (4, 5), (6, 7), (0, 2), (4, 6), (0, 4)][: rng.randint(3, 7)] + history[:3]
        check_dsu(ctx, n, history)
    for _ in range(spec["nrand"] // 2):
        history, n = staircase_history(rng)
        check_dsu(ctx, n, history, binary_first=rng.random() < 0.7)


def staircase_history(rng):
    """Blocks of sizes 1/2/4/8 (and others) united internally in binomial, chain or star order, in any interleaving, then
    a few unions between blocks: union-by-rank builds parent chains of depth 1-3 that find() has not compressed."""
    sizes = rng.choice([[2, 4, 8, 1], [1, 2, 4, 8], [8, 4, 2, 1], [3, 4, 8], [2, 2, 4, 4, 1], [4, 8, 2, 1, 1], [2, 4, 8, 3], [5, 6, 3, 1], [16, 2, 1], [16, 4, 2, 1], [1, 2, 16], [32, 3], [16, 16, 1]])
    if rng.random() < 0.4:
        sizes = rng.sample(sizes, len(sizes))
    n = sum(sizes)
    ids = list(range(n))
    if rng.random() < 0.4:
        rng.shuffle(ids)
    blocks, at = [], 0
    for sz in sizes:
        blocks.append(ids[at:at + sz])
        at += sz
    seqs = []
    for c in blocks:
        mode = rng.choice(["binomial", "binomial", "chain", "star"])
        pairs = []
        if mode == "binomial":
            step = 1
            while step < len(c):
                pairs += [(c[i], c[i + step]) for i in range(0, len(c) - step, 2 * step)]
                step *= 2
        elif mode == "chain":
            pairs = [(c[i], c[i + 1]) for i in range(len(c) - 1)]
        else:
            pairs = [(c[0], x) for x in c[1:]]
        if rng.random() < 0.3:
            pairs = [(b, a) for a, b in pairs]
        seqs.append(pairs)
    history = []
    if rng.random() < 0.5:
        for sq in seqs:
            history += sq
    else:
        live = [list(sq) for sq in seqs if sq]
        while live:
            sq = rng.choice(live)
            history.append(sq.pop(0))
            if not sq:
                live.remove(sq)
    for _ in range(rng.choice([0, 0, 1, 2])):
        a, b = rng.sample(range(len(blocks)), 2)
        history.append((rng.choice(blocks[a]), rng.choice(blocks[b])))
    return history, n


def _rename_leaves(x, ren):
    return ren[x] if isinstance(x, str) else [_rename_leaves(c, ren) for c in x]


def _tup(x):
    return x if isinstance(x, str) else tuple(_tup(c) for c in x)


def replay(ctx, case):
    if case["kind"] == "roundtrip":
        check_roundtrip(ctx, case["tree"])
    elif case["kind"] == "triples":
        check_triple_set(ctx, case["leaves"], [tuple(t) for t in case["triples"]])
    elif case["kind"] == "bigtriples":
        import superrec2.utils.trees as UT

        got = UT.all_trees_from_triples(list(case["leaves"]), [tuple(t) for t in case["triples"]])
        for t in got:
            R, rn = model_of(nested_of_ete(t))
            bad = next((tr for tr in case["triples"] if not displays(R, rn, tuple(tr))), None)
            if bad is not None or not R.is_binary() or sorted(rn) != sorted(case["leaves"]):
                ctx.viol("C20.alltrees", case, f"a returned tree does not display {bad}")
                break
    elif case["kind"] == "comptriples":
        check_component_triples(ctx, case["leaves"], [tuple(t) for t in case["triples"]], case.get("hidden"), budget_s=60)
    elif case["kind"] == "dsu":
        check_dsu(ctx, case["n"], [tuple(h) for h in case["history"]], binary_first=case.get("binary_first", False))
    else:
        ctx.notes.append("supertree cases are replayed by seed (random restriction sets)")
