"""C08 Polytomies: every binary refinement exactly once; extended solvers optimise over all of them."""
import collections
import itertools
import math

from rv import bridge, gen, solvercheck as SC, suite
from rv.bridge import ALL, ANY
from rv.core import Inconclusive, skippable
from rv.refmodel import trees as RT
from rv.refmodel.trees import T

INF = math.inf
META = {
    "rule": (
        "Each evaluation is one call of utils.trees.binarize / ReconciliationInput.binarize (event log of every yielded tree / "
        "input) or one run of an extended solver on an input whose object and/or species tree has polytomies. The log is "
        "checked offline against R-REFINE (independent generator by recursive bipartition): multiset equality of clade sets "
        "(each refinement exactly once), prod (2k-3)!! count, every result binary, every original clade / node name / colour "
        "and all leaf data kept, child order of already-binary nodes kept, original tree unchanged. End to end: solver "
        "optimum and optimal set = min / union over the reference models run on every refinement pair. Non-trivial: at least "
        "one node with >=3 children; distinct = tree shape (enumerator) or (algorithm, sizes, #refinements, optimum)."
    ),
    "floors": {
        "quick": {"evaluations": 200, "mon.enum": 70, "mon.enum_trees_logged": 600, "mon.input_binarize": 30, "mon.e2e": 40, "mon.enum_recoloured": 30, "mon.e2e_recoloured": 10},
        "thorough": {"evaluations": 2500, "mon.enum": 500, "mon.enum_trees_logged": 30000, "mon.input_binarize": 300, "mon.e2e": 800, "mon.enum_recoloured": 200, "mon.e2e_recoloured": 300},
    },
    "exhaustive": {"quick": True, "thorough": True},
    "space": {"quick": "all tree shapes of any arity with <=6 leaves (named / coloured variants), 48 end-to-end inputs up to 4+4 leaves with <=2 polytomies", "thorough": "all tree shapes of any arity with <=7 leaves, 1k end-to-end inputs up to 5+4 leaves with <=2 polytomies"},
    "assumptions": ["refinements are compared as unordered trees (sets of clades)"],
    "timeout": {"quick": 420, "thorough": 7200},
}


def plan(tier, seed):
    q = tier == "quick"
    specs = [{"kind": "enum", "i": i, "n": 8, "maxleaves": 6 if q else 7} for i in range(8)]
    specs += [{"kind": "e2e", "i": i, "count": 60 if q else 400} for i in range(16)]
    return specs


# ----------------------------------------------------------------- R-REFINE
def refinements(nested):
    """All binary refinements of a nested tree, as nested lists (children order arbitrary)."""
    if isinstance(nested, str):
        return [nested]
    if isinstance(nested, dict):
        ch = nested.get("ch", [])
        if not ch:
            return [nested["name"]]
    else:
        ch = nested
    options = [refinements(c) for c in ch]
    res = []
    k = len(ch)
    shapes = list(RT.all_labelled_binary([str(i) for i in range(k)]))
    for choice in itertools.product(*options):
        for sh in shapes:
            res.append(_subst(sh, choice))
    return res


def _subst(shape, choice):
    if isinstance(shape, str):
        return choice[int(shape)]
    return [_subst(c, choice) for c in shape]


def double_factorial_count(M):
    n = 1
    for v in M.nodes:
        k = len(M.children[v])
        if k >= 3:
            for j in range(3, 2 * k - 2, 2):
                n *= j
    return n


def clades_of_nested(nested):
    return T(nested).clades()


def ete_info(tree):
    """Harness-side read of an ete3 tree: clade -> (name, colour, child clades in order)."""
    info = {}
    clade = {}
    for node in tree.traverse("postorder"):
        if node.is_leaf():
            clade[node] = frozenset([node.name])
        else:
            clade[node] = frozenset().union(*(clade[c] for c in node.children))
        info[clade[node]] = (node.name, getattr(node, "color", None), tuple(clade[c] for c in node.children))
    return info


def named_variant(rng, shape, mode):
    """Fill a shape with leaf names and (per mode) internal names / colours -> nested with dicts."""
    counter = [0]
    inner = [0]

    glued = ["7", "1", "2", "12", "a", "b", "ab", "21", "x", "1a"] if mode == "glued" else None

    def go(sh, depth):
        if sh is None:
            nm = f"l{counter[0]}" if glued is None else glued[counter[0] % len(glued)]
            counter[0] += 1
            return nm
        d = {"ch": [go(c, depth + 1) for c in sh]}
        idx = inner[0]
        inner[0] += 1
        if mode in ("named", "both") or (mode == "partial" and rng.random() < 0.5):
            d["name"] = f"N{idx}"
        if mode in ("color", "both") and rng.random() < 0.5:
            d["color"] = rng.choice(["FF0000", "00FF00", "0000FF"])
        return d

    return go(shape, 0)


COLORS = ["FF0000", "00FF00", "0000FF", "FFAA00", "123456"]


def recolour(rng, nested):
    """Same topology, child order and names; colour annotations drawn again (history workload: a second call on a tree
    that differs from an earlier one only in its colours must not see anything of the earlier call)."""
    if isinstance(nested, str):
        return nested
    if isinstance(nested, dict):
        d = {k: v for k, v in nested.items() if k not in ("color", "ch")}
        ch = nested.get("ch", [])
    else:
        d, ch = {}, nested
    d["ch"] = [recolour(rng, c) for c in ch]
    old = nested.get("color") if isinstance(nested, dict) else None
    r = rng.random()
    if r < 0.6:
        d["color"] = rng.choice([c for c in COLORS if c != old])
    elif r < 0.8 and old:
        d["color"] = old
    if not d["ch"]:
        d.pop("ch")
    return d


def check_enum(ctx, nested, before=()):
    """``before``: Newick texts of the trees refined earlier in the same sequence (history workloads); recorded in
    the case so that a replay re-creates the history."""
    from ete3 import Tree
    from superrec2.utils.trees import binarize

    M = T(nested)
    case = {"kind": "enum", "tree": M.newick()}
    if before:
        case["before"] = list(before)
    tree = Tree(M.newick(), format=1)
    before = (tree.write(format=8, format_root_node=True, features=["color"]), ete_info(tree))
    try:
        res = binarize(tree)
        log = list(res)
    except Exception as exc:  # noqa: BLE001
        ctx.viol("C08.enum", case, f"binarize raised {type(exc).__name__}: {exc}")
        return
    ctx.count("evaluations")
    ctx.count("mon.enum")
    ctx.count("mon.enum_trees_logged", len(log))
    after = (tree.write(format=8, format_root_node=True, features=["color"]), ete_info(tree))
    if before != after:
        ctx.viol("C08.mutation", case, "binarize modified the tree it was given")
    want = collections.Counter(clades_of_nested(r) for r in refinements(nested))
    if len(want) != double_factorial_count(M) or any(k != 1 for k in want.values()):
        raise Inconclusive(f"R-REFINE self-check failed on {M.newick()}")
    ctx.count("selfcheck.refine_count")
    got = collections.Counter()
    orig = ete_info(tree)
    for t in log:
        info = ete_info(t)
        cl = frozenset(info)
        got[cl] += 1
        if any(len(ch) not in (0, 2) for _, _, ch in info.values()):
            ctx.viol("C08.enum", case, "a yielded tree is not binary")
        for c, (name, color, ch) in orig.items():
            if c not in info:
                ctx.viol("C08.enum", case, f"clade {sorted(c)} of the original tree is missing from a refinement")
                continue
            n2, col2, ch2 = info[c]
            if n2 != name:
                ctx.viol("C08.enum", case, f"node name {name!r} of clade {sorted(c)} became {n2!r}")
            if col2 != color:
                ctx.viol("C08.enum", case, f"colour {color!r} of clade {sorted(c)} became {col2!r}")
            if len(ch) == 2 and ch2 != ch:
                ctx.viol("C08.enum", case, f"child order of the binary node {sorted(c)} changed")
    rep = [k for k, n in got.items() if n > 1]
    if rep:
        ctx.viol("C08.enum", case, f"{len(rep)} refinement(s) yielded more than once (e.g. {got[rep[0]]} times)")
    if set(got) - set(want):
        ctx.viol("C08.enum", case, f"{len(set(got) - set(want))} yielded tree(s) are not refinements of the input")
    if set(want) - set(got):
        ctx.viol("C08.enum", case, f"{len(set(want) - set(got))} of the {len(want)} binary refinements are missing")
    # history: colour annotations of the SAME tree object are changed in place and it is refined again
    internal = [n for n in tree.traverse() if not n.is_leaf()]
    if internal and len(log) >= 2:
        node = internal[len(log) % len(internal)]
        node.add_feature("color", "0A0B0C" if getattr(node, "color", None) != "0A0B0C" else "C0B0A0")
        orig2 = ete_info(tree)
        try:
            for t2 in binarize(tree):
                info2 = ete_info(t2)
                for c, (name, color, ch) in orig2.items():
                    if c in info2 and info2[c][1] != color:
                        ctx.viol("C08.enum", dict(case, history="colour of a node of the same tree object changed in place, refined again"),
                                 f"after an in-place colour change, clade {sorted(c)} has colour {info2[c][1]!r} in a refinement, the tree now says {color!r}")
                        break
            ctx.count("mon.enum_recoloured_inplace")
        except Exception as exc:  # noqa: BLE001
            ctx.viol("C08.enum", case, f"binarize raised after an in-place colour change: {type(exc).__name__}: {exc}")
    maxk = max(len(M.children[v]) for v in M.nodes)
    ctx.sig(("enum", M.newick()), maxk >= 3)
    if maxk >= 3 and len(M.leaves()) >= 4:
        ctx.sample(case)


def check_input_binarize(ctx, case):
    """ReconciliationInput.binarize(): product of refinements, leaf data kept."""
    B = bridge.Built(case, named=case.get("named", True))
    try:
        outs = list(B.inp.binarize())
    except Exception as exc:  # noqa: BLE001
        ctx.viol("C08.input_binarize", case, f"binarize() raised {type(exc).__name__}: {exc}")
        return
    ctx.count("evaluations")
    ctx.count("mon.input_binarize")
    wantG = {clades_of_nested(r) for r in refinements(case["G"])}
    wantS = {clades_of_nested(r) for r in refinements(case["S"])}
    got = collections.Counter()
    for inp in outs:
        gi, si = ete_info(inp.object_tree), ete_info(inp.species_lca.tree)
        got[(frozenset(gi), frozenset(si))] += 1
        lm = {n.name: s.name for n, s in inp.leaf_object_species.items()}
        if lm != case["leafmap"]:
            ctx.viol("C08.input_binarize", case, f"leaf assignment changed by binarize(): {lm}")
        if case.get("syn") is not None:
            unordered_in = SC.kind_of(case.get("algo", "superdtl")) == "unordered"
            norm = (lambda s: sorted(s)) if unordered_in else (lambda s: list(s))  # unordered syntenies are sets of families
            ls = {n.name: norm(s) for n, s in inp.leaf_syntenies.items() if n.is_leaf()}
            if ls != {k: norm(v) for k, v in case["syn"].items()}:
                ctx.viol("C08.input_binarize", case, "leaf syntenies changed by binarize()")
            extra = {n: list(s) for n, s in inp.leaf_syntenies.items() if not n.is_leaf()}
            want_extra = {inp.object_tree: list(case["root_order"])} if case.get("root_order") else {}
            if extra != want_extra:
                ctx.viol("C08.input_binarize", case, "prescribed root synteny changed or lost by binarize()")
        if bridge.costs_of(inp) != {k: v for k, v in B.c.items()}:
            ctx.viol("C08.input_binarize", case, "costs changed by binarize()")
        if inp.species_lca.tree is not inp.species_lca.tree.get_tree_root():
            ctx.viol("C08.input_binarize", case, "species LCA structure not rooted at the species tree")
    want = {(g, s) for g in wantG for s in wantS}
    if any(n > 1 for n in got.values()):
        ctx.viol("C08.input_binarize", case, "an input refinement is yielded more than once")
    if set(got) != want:
        ctx.viol("C08.input_binarize", case, f"binarize() yielded {len(got)} distinct refinement pairs, expected {len(want)}")


def model_refined(case, algo, want_set):
    """min / union over the reference model run on every refinement pair."""
    best = INF
    sols = set()
    too_many = False
    npairs = 0
    for g in refinements(case["G"]):
        for s in refinements(case["S"]):
            npairs += 1
            sub = dict(case, G=RT.tolist(_plain(g)), S=RT.tolist(_plain(s)))
            B = bridge.Built(sub)
            mn, mset = suite.model_solve(B, algo, want_set=want_set, canonical=True)
            if want_set and mset is None:
                too_many = True
                mset = set()
            if mset:
                # the refined species tree is part of the solution
                mset = {(x, B.S.clades()) for x in mset}
            if mn < best:
                best, sols = mn, set(mset or ())
            elif mn == best and mn != INF:
                sols |= set(mset or ())
    return best, (None if too_many else sols), npairs


def _plain(nested):
    if isinstance(nested, str):
        return nested
    if isinstance(nested, dict):
        return [_plain(c) for c in nested["ch"]] if nested.get("ch") else nested["name"]
    return [_plain(c) for c in nested]


@skippable
def check_e2e(ctx, case):
    algo = case["algo"]
    kind = SC.kind_of(algo)
    B = bridge.Built(case, named=case.get("named", True))
    mn, mset, npairs = model_refined(case, algo, True)
    if kind == "unordered":
        full, _, _ = model_refined(case, algo, False)  # canonical=True inside; acceptable: C03 decides the gap
    obs_all = SC.call(algo, B.inp, ALL)
    obs_any = SC.call(algo, B.inp, ANY)
    ctx.count("evaluations", 2)
    ctx.count("mon.e2e")
    origG = ete_info(B.gt)
    origS = ete_info(B.st)
    for pol, obs in (("ALL", obs_all), ("ANY", obs_any)):
        if obs.exc is not None:
            ctx.viol("C08.e2e", case, f"{algo}/{pol} raised on a multifurcating input: {obs.exc}")
            continue
        if mn == INF:
            if obs.outs:
                ctx.viol("C08.e2e", case, f"{algo}/{pol}: solutions returned although no refinement has one")
            continue
        if not obs.outs:
            ctx.viol("C08.e2e", case, f"{algo}/{pol}: empty result, optimum over all refinements is {mn}")
            continue
        for out, e in zip(obs.outs, obs.ext):
            why = SC.validity(e, kind, B.root_order)
            if why:
                ctx.viol("C08.e2e", case, f"{algo}/{pol}: returned solution invalid: {why}")
                continue
            x = SC.model_cost(e, B.c, kind)
            if x != mn:
                ctx.viol("C08.e2e", case, f"{algo}/{pol}: returned cost {x}, optimum over all {npairs} refinement pairs is {mn}")
            # trees of the solution keep clades, names, colours, leaf data of the original
            for label_, orig, tree in (("object", origG, out.input.object_tree), ("species", origS, out.input.species_lca.tree)):
                info = ete_info(tree)
                for c, (name, color, ch) in orig.items():
                    if c not in info:
                        ctx.viol("C08.e2e", case, f"{algo}/{pol}: {label_} clade {sorted(c)} lost in the returned solution")
                    else:
                        if name and info[c][0] != name:
                            ctx.viol("C08.e2e", case, f"{algo}/{pol}: {label_} node name {name!r} became {info[c][0]!r}")
                        if info[c][1] != color:
                            ctx.viol("C08.e2e", case, f"{algo}/{pol}: colour of {label_} clade {sorted(c)} changed")
            lm = {n.name: s.name for n, s in out.input.leaf_object_species.items()}
            if lm != case["leafmap"]:
                ctx.viol("C08.e2e", case, f"{algo}/{pol}: leaf assignment of the returned solution differs from the input")
            norm = (lambda s: sorted(s)) if kind == "unordered" else (lambda s: list(s))
            ls = {n.name: norm(s) for n, s in out.input.leaf_syntenies.items() if n.is_leaf()}
            if ls != {k: norm(v) for k, v in case["syn"].items()}:
                ctx.viol("C08.e2e", case, f"{algo}/{pol}: leaf syntenies of the returned solution differ from the input")
            if case.get("root_order") and list(out.input.leaf_syntenies.get(out.input.object_tree, ())) != list(case["root_order"]):
                ctx.viol("C08.e2e", case, f"{algo}/{pol}: the prescribed root synteny is not kept in the returned solution's input")
    if mset is not None and obs_all.exc is None and mn != INF:
        got = [(x, e["S"].clades()) for x, e in zip(SC.canon_set(obs_all), obs_all.ext)]
        cnt = collections.Counter(got)
        if set(cnt) != mset or any(n > 1 for n in cnt.values()):
            ctx.viol("C08.e2e_set", case, f"{algo}/ALL returned {len(cnt)} distinct solutions ({sum(cnt.values())} in total); union of the optimal sets of the optimal refinements has {len(mset)}")
        if obs_any.exc is None and obs_any.outs and (SC.canon_set(obs_any)[0], obs_any.ext[0]["S"].clades()) not in mset:
            ctx.viol("C08.e2e_set", case, f"{algo}/ANY returned a solution outside the optimal set")
    polyG = max(len(B.G.children[v]) for v in B.G.nodes) >= 3
    polyS = max(len(B.S.children[v]) for v in B.S.nodes) >= 3
    ctx.sig(("e2e", algo, len(B.G.leaves()), len(B.S.leaves()), polyG, polyS, npairs, mn if mn == INF or mn < 10 else 10), polyG or polyS)
    ctx.sample(case)


def canaries(ctx):
    ok = len(refinements(["a", "b", "c"])) == 3 and len(refinements(["a", "b", "c", "d"])) == 15
    ok &= len(refinements([["a", "b", "c"], "d", "e"])) == 9 and len(refinements([["a", "b"], "c"])) == 1
    ok &= len({clades_of_nested(r) for r in refinements(["a", "b", "c", "d", "e"])}) == 105
    ok &= double_factorial_count(T(["a", "b", "c", "d", "e"])) == 105 and double_factorial_count(T([["a", "b", "c"], "d", "e"])) == 9
    ctx.count("canaries")
    if not ok:
        raise Inconclusive("C08 R-REFINE canary failed")


def run(ctx, spec):
    if spec["kind"] == "enum":
        rng = ctx.rng("enum")
        idx = 0
        for n in range(1, spec["maxleaves"] + 1):
            for shape in RT.any_arity_shapes(n):
                for mode in ("plain", "named", "both", "partial", "glued"):
                    idx += 1
                    if idx % spec["n"] != spec["i"]:
                        continue
                    sh = shape if idx % 3 else RT.mirror(shape)
                    nv = named_variant(rng, sh, mode)
                    check_enum(ctx, nv)
                    if mode in ("named", "both") and n >= 3:
                        # history: same names and topology, other colours, then the first one again
                        nv2 = recolour(rng, nv)
                        check_enum(ctx, nv2, before=[T(nv).newick()])
                        ctx.count("mon.enum_recoloured")
                        if idx % 2:
                            check_enum(ctx, nv, before=[T(nv).newick(), T(nv2).newick()])
                    if ctx.too_many():
                        return
        # ReconciliationInput.binarize on random multifurcating inputs
        for k in range(6 if spec["maxleaves"] <= 6 else 40):
            case = random_poly_case(rng, "superdtl", 4, 4)
            check_input_binarize(ctx, case)
    else:
        rng = ctx.rng("e2e")
        for k in range(spec["count"]):
            algo = ["ext_spfs", "superdtl"][k % 2]
            case = random_poly_case(rng, algo, 4 if ctx.tier == "quick" else 5, 4)
            check_e2e(ctx, case)
            if k % 2 == 0:
                # history: the same input with other colour annotations, in the same process
                check_e2e(ctx, dict(case, G=recolour(rng, case["G"]), S=recolour(rng, case["S"]), before=[{k2: v for k2, v in case.items() if k2 != "before"}]))
                ctx.count("mon.e2e_recoloured")
            if k % 3 == 0:
                check_input_binarize(ctx, case)
            if ctx.too_many():
                return


def random_poly_case(rng, algo, max_obj, max_sp):
    while True:
        no = rng.randint(3, max_obj)
        ns = rng.randint(2, max_sp)
        where = rng.choice(["G", "S", "both"]) if ns >= 3 else "G"
        G = RT.random_multifurcating(rng, gen.object_labels(no), max_poly=2, max_arity=4) if where in ("G", "both") else RT.random_binary(rng, gen.object_labels(no))
        S = RT.random_multifurcating(rng, gen.species_labels(ns), max_poly=1, max_arity=3) if where in ("S", "both") else RT.random_binary(rng, gen.species_labels(ns))
        if isinstance(S, str):
            continue
        if T(G).is_binary() and T(S).is_binary():
            continue
        if len(refinements(G)) * len(refinements(S)) > 50:
            continue
        lm = {g: rng.choice(gen.species_labels(ns)) for g in gen.object_labels(no)}
        ordered = SC.kind_of(algo) == "ordered"
        named = rng.random() < 0.5
        if named:
            # distinctive user-given names on every ancestor (also the roots): they must survive the refinement
            G, S = _give_names(G, "anc"), _give_names(S, "clade")
        if rng.random() < 0.5:
            G, S = recolour(rng, G), recolour(rng, S)
        costs = gen.random_cost(rng)
        if rng.random() < 0.25:
            # forbidden events (infinite duplication and/or transfer cost): whether a refinement has any finite
            # scenario then depends on its topology - the optimum is still the minimum over ALL refinements
            costs = dict(costs, dup="inf")
            if rng.random() < 0.7:
                costs["hgt"] = "inf"
        case = {"kind": "e2e", "algo": algo, "G": G, "S": S, "leafmap": lm, "costs": costs,
                "syn": gen.random_syntenies(rng, list(lm), 3, ordered=ordered, consistent_p=1.0), "named": named}
        r = rng.random()
        if ordered and r < 0.5:
            # syntenies handed over as tuples, or as strings of one-letter family names in a non-alphabetical order
            case["syn_form"] = "tuple"
            if r < 0.25:
                ren = dict(zip(["f0", "f1", "f2"], rng.sample(["c", "a", "d", "b"], 3)))
                case["syn"] = {g: [ren[f] for f in fs] for g, fs in case["syn"].items()}
                case["syn_form"] = "str"
        elif not ordered and r < 0.4:
            case["syn_form"] = "set" if r < 0.2 else "frozenset"
        if ordered and named and rng.random() < 0.4:
            # prescribed root order (possibly with a family that no leaf carries): it must survive the refinement too.
            # Only with a named root, as in the documented file format (syntenies are keyed by node name); the unnamed
            # variant is the known finding F-UNNAMED-ROOT-ORDER, replayed from its witness.
            ro = gen.common_supersequence(rng, case["syn"])
            if ro is not None:
                case["root_order"] = ro
        return case


def _give_names(nested, prefix):
    counter = [0]

    def go(x):
        if isinstance(x, str):
            return x
        d = {"name": f"{prefix}{counter[0]}"}
        counter[0] += 1
        d["ch"] = [go(c) for c in x]
        return d

    return go(nested)


def known(ctx, finding):
    """Replay the listed witness of F-UNNAMED-ROOT-ORDER; anything else it shows is a violation."""
    wit = finding["witness"]
    case = wit["case"]
    B = bridge.Built(case, named=False)
    exp = wit["expect"]
    hits = 0
    for pol in (ALL, ANY):
        obs = SC.call(case["algo"], B.inp, pol)
        ctx.count("evaluations")
        if obs.exc is not None and all(tok in obs.exc for tok in exp["exception_contains"]):
            hits += 1
        elif obs.exc is not None:
            ctx.viol("C08.e2e", case, f"{case['algo']}/{pol.name} raised on the witness of {finding['id']} in an unlisted way: {obs.exc}")
    if hits == 2:
        ctx.known.append(f"{finding['id']} {finding['text']}")
    else:
        ctx.notes.append(f"known finding {finding['id']} no longer reproduces")
        if hits == 0:
            check_e2e(ctx, case)
    # control: the same input with a named root is solved and judged normally
    check_e2e(ctx, dict(case, named=True, G=_give_names(case["G"], "anc"), S=_give_names(case["S"], "clade")))


def replay(ctx, case):
    if case["kind"] == "enum":
        from ete3 import Tree
        from superrec2.utils.trees import binarize
        from rv.refmodel import newick

        for text in case.get("before", []):
            # re-create the history: the trees refined earlier in the same process
            list(binarize(Tree(text, format=1)))
        check_enum(ctx, newick.parse(case["tree"]), before=case.get("before", ()))
    else:
        for prev in case.get("before", []):
            B0 = bridge.Built(prev, named=prev.get("named", True))
            try:
                SC.call(prev["algo"], B0.inp, ALL)
            except BaseException:  # noqa: B902 - only the side effects of the earlier run matter here
                pass
        check_e2e(ctx, case)
        check_input_binarize(ctx, case)
