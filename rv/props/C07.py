"""C07 LCA reconciliation is the unique optimum of the duplication-loss model."""
import itertools
import math

from rv import bridge, gen, solvercheck as SC
from rv.bridge import ALL
from rv.core import Inconclusive, skippable
from rv.refmodel import dtl

INF = math.inf
META = {
    "rule": (
        "Each evaluation is one call of reconcile_lca (or of reconcile_thl with an infinite transfer cost) on a binary input; "
        "the returned mapping is extracted by clade and compared with the model's clade-wise LCA mapping, validated by "
        "R-VALID, and its model cost compared with the R-DTL minimum with transfers forbidden for (dup, floss) in {0..5}^2 "
        "(spe at its default 0); for floss>0 the model's optimal set must be exactly that singleton, and THL(ALL, hgt=inf) "
        "must return the same cost (and exactly that solution when floss>0). Non-trivial: >=2 object leaves and the LCA "
        "reconciliation contains a duplication or loss; distinct = (sizes, #spe, #dup, #losses of the LCA mapping)."
    ),
    "floors": {
        "quick": {"evaluations": 3000, "mon.mapping": 1500, "mon.optimal_pairs": 30000, "mon.unique": 20000, "mon.thl_agree": 1500, "mon.reindexed": 1500},
        "thorough": {"evaluations": 60000, "mon.mapping": 30000, "mon.optimal_pairs": 300000, "mon.unique": 200000, "mon.thl_agree": 20000, "mon.reindexed": 30000},
    },
    "exhaustive": {"quick": True, "thorough": True},
    "space": {"quick": "all inputs <=4 object leaves x <=4 species leaves (all assignments, mirrored shapes) x 36 (dup, floss) pairs", "thorough": "all inputs <=5 object leaves x <=4 species leaves and a sample of 5x5; random inputs up to 10x8 against THL"},
    "assumptions": ["spe stays at its default 0, as the property is stated"],
    "timeout": {"quick": 420, "thorough": 7200},
}

PAIRS = [(d, f) for d in range(6) for f in range(6)]


def plan(tier, seed):
    if tier == "quick":
        return [{"kind": "exh", "i": i, "n": 16, "max_obj": 4, "max_sp": 4, "npairs": 36, "nthl": 1, "nrand": 8} for i in range(16)]
    specs = [{"kind": "exh", "i": i, "n": 48, "max_obj": 5, "max_sp": 4, "npairs": 12, "nthl": 1, "nrand": 250, "map6_sp": 5} for i in range(48)]
    return specs


def cost(d, f, hgt="inf"):
    return {"spe": 0, "dup": d, "hgt": hgt, "floss": f, "sloss": 1}


def judge_mapping(B, obs):
    if obs.exc is not None:
        return [("total", f"reconcile_lca raised: {obs.exc}")]
    if len(obs.ext) != 1:
        return [("mapping", "reconcile_lca did not return exactly one reconciliation")]
    e = obs.ext[0]
    why = SC.validity(e, "plain")
    if why:
        return [("valid", f"LCA reconciliation is not valid: {why}")]
    want = bridge.canon(B.G, B.S, dtl.lca_mapping(B.G, B.S, B.leafmap))
    got = bridge.canon(e["G"], e["S"], e["m"])
    if got != want:
        return [("mapping", "a node is not mapped to the lowest common ancestor of the species of its leaves")]
    return []


@skippable
def check_input(ctx, Gn, Sn, lm, pairs, thl_pairs):
    case0 = {"kind": "lca", "G": Gn, "S": Sn, "leafmap": lm, "costs": cost(1, 1)}
    B = bridge.Built(case0)
    obs = SC.call("lca", B.inp)
    ctx.count("evaluations")
    ctx.count("mon.mapping")
    for mon, msg in judge_mapping(B, obs):
        ctx.viol(f"C07.{mon}", case0, msg)
    if obs.exc is not None or len(obs.ext) != 1:
        return
    e = obs.ext[0]
    returned = {v: e["m"].get(v) for v in e["G"].nodes}
    lca_m = dtl.lca_mapping(B.G, B.S, B.leafmap)
    want_canon = bridge.canon(B.G, B.S, lca_m)
    for d, f in pairs:
        c = dict(spe=0, dup=d, hgt=INF, floss=f, sloss=1)
        case = dict(case0, costs=cost(d, f))
        ctx.count("mon.optimal_pairs")
        if set(e["m"]) == set(e["G"].nodes):
            x = dtl.rec_cost(e["G"], e["S"], e["m"], c)
            mn, sols = dtl.dp_opt_set(B.G, B.S, B.leafmap, c, cap=3)
            if x != mn:
                ctx.viol("C07.optimal", case, f"LCA reconciliation costs {x}, the duplication-loss optimum is {mn}")
            if f > 0:
                ctx.count("mon.unique")
                if sols is None or len(sols) != 1 or bridge.canon(B.G, B.S, sols[0]) != want_canon:
                    ctx.viol("C07.model_unique", case, "reference model: the LCA mapping is not the unique optimum for floss>0")
    for d, f in thl_pairs:
        case = dict(case0, costs=cost(d, f))
        BT = bridge.Built(case)
        o = SC.call("thl", BT.inp, ALL)
        ctx.count("evaluations")
        ctx.count("mon.thl_agree")
        if o.exc is not None:
            ctx.viol("C07.thl_agree", case, f"reconcile_thl with infinite transfer cost raised: {o.exc}")
            continue
        c = BT.c
        want_cost = dtl.rec_cost(B.G, B.S, lca_m, c)
        costs = {SC.model_cost(x, c, "plain") for x in o.ext}
        if costs != {want_cost}:
            ctx.viol("C07.thl_agree", case, f"THL with hgt=inf returns cost(s) {sorted(costs, key=repr)}, LCA reconciliation costs {want_cost}")
        elif f > 0:
            got = set(SC.canon_set(o))
            if got != {want_canon}:
                ctx.viol("C07.thl_agree", case, f"THL with hgt=inf and floss>0 returns {len(got)} solution(s), expected exactly the LCA reconciliation")
    # history: the same tree objects, children reversed in place, indexed again by a new LowestCommonAncestor
    B.reindexed_inplace()
    obs2 = SC.call("lca", B.inp)
    ctx.count("evaluations")
    ctx.count("mon.reindexed")
    for mon, msg in judge_mapping(B, obs2):
        ctx.viol(f"C07.{mon}", dict(case0, history="children reversed in place, trees indexed again"), msg + " (second run on the same tree objects after an in-place child reordering)")
    # history: two leaves of the object tree are exchanged IN PLACE (same root, same node objects, same input object),
    # and the very same input object is reconciled again: the answer must be the LCA mapping of the tree as it is now
    leaves_now = [x for x in B.gt.iter_leaves()]
    if len(leaves_now) >= 3 and len(B.G.leaves()) <= 12:
        a = leaves_now[0]
        b = next((x for x in reversed(leaves_now) if x.up is not a.up), None)
        if b is not None:
            pa, pb = a.up, b.up
            ia, ib = pa.children.index(a), pb.children.index(b)
            pa.children[ia], pb.children[ib] = b, a
            a.up, b.up = pb, pa
            G2, gid2 = bridge.model_from_ete(B.gt)
            name2 = {G2.name[v]: v for v in G2.leaves()}
            sname = {B.S.name[v]: v for v in B.S.nodes if B.S.name[v] is not None}
            leafmap2 = {name2[g]: sname[s] for g, s in lm.items()}
            want2 = bridge.canon(G2, B.S, dtl.lca_mapping(G2, B.S, leafmap2))
            obs3 = SC.call("lca", B.inp)
            ctx.count("evaluations")
            ctx.count("mon.after_leaf_exchange")
            hist = dict(case0, history=f"leaves {a.name} and {b.name} of the object tree exchanged in place, same input object reconciled again")
            if obs3.exc is not None:
                ctx.viol("C07.total", hist, f"reconcile_lca raised after an in-place leaf exchange: {obs3.exc}")
            elif len(obs3.ext) != 1 or obs3.ext[0]["problems"] or set(obs3.ext[0]["m"]) != set(obs3.ext[0]["G"].nodes):
                ctx.viol("C07.mapping", hist, "reconcile_lca did not return one complete reconciliation after an in-place leaf exchange")
            else:
                e3 = obs3.ext[0]
                if bridge.canon(e3["G"], e3["S"], e3["m"]) != want2:
                    ctx.viol("C07.mapping", hist, "after an in-place exchange of two leaves of the object tree, the same input object is not mapped to the LCA mapping of the tree as it is now")
    n = dtl.event_counts(B.G, B.S, lca_m)
    ctx.sig((len(B.G.leaves()), len(B.S.leaves()), n["SPE"], n["DUP"], n["LOSS"]), len(B.G.leaves()) >= 2 and n["DUP"] + n["LOSS"] > 0)
    if len(lm) >= 3 and n["DUP"] + n["LOSS"] > 0:
        ctx.sample(case0)


def check_mapping_only(ctx, Gn, Sn, lm):
    """Light variant for the large exhaustive level: the mapping (every node at the LCA of the species of its leaves)
    and validity only."""
    case0 = {"kind": "lca", "G": Gn, "S": Sn, "leafmap": lm, "costs": cost(1, 1)}
    B = bridge.Built(case0)
    obs = SC.call("lca", B.inp)
    ctx.count("evaluations")
    ctx.count("mon.mapping")
    ctx.count("mon.mapping_only")
    for mon, msg in judge_mapping(B, obs):
        ctx.viol(f"C07.{mon}", case0, msg)


def canaries(ctx):
    case = {"G": [["g0", "g1"], "g2"], "S": [["A", "B"], "C"], "leafmap": {"g0": "A", "g1": "B", "g2": "A"}, "costs": cost(1, 1)}
    B = bridge.Built(case)
    m = dtl.lca_mapping(B.G, B.S, B.leafmap)
    o = SC.Obs(); o.outs = [B.output(m)]; o.ext = [bridge.extract(x) for x in o.outs]
    ok = not judge_mapping(B, o)
    hi = dict(m); hi[B.G.root] = B.S.root  # valid, but above the LCA
    o2 = SC.Obs(); o2.outs = [B.output(hi)]; o2.ext = [bridge.extract(x) for x in o2.outs]
    ok &= any(mon == "mapping" for mon, _ in judge_mapping(B, o2))
    low = dict(m); low[B.G.root] = B.leafmap[B.G.leaves()[0]]
    o3 = SC.Obs(); o3.outs = [B.output(low)]; o3.ext = [bridge.extract(x) for x in o3.outs]
    ok &= any(mon == "valid" for mon, _ in judge_mapping(B, o3))
    ctx.count("canaries")
    if not ok:
        raise Inconclusive("C07 canary accepted")


def run(ctx, spec):
    rng = ctx.rng("c07")
    idx = 0
    for Gn, Sn, lm in gen.exhaustive_inputs(spec["max_obj"], spec["max_sp"]):
        idx += 1
        if idx % spec["n"] != spec["i"]:
            continue
        pairs = PAIRS if spec["npairs"] >= 36 or len(lm) <= 3 else rng.sample(PAIRS, spec["npairs"])
        check_input(ctx, Gn, Sn, lm, pairs, rng.sample(PAIRS, spec["nthl"]) if len(lm) >= 2 else [])
        if ctx.too_many():
            return
    # large species trees (hundreds of species): mapping / validity only (the optimum oracle is cubic in the species)
    from rv.refmodel import trees as RT

    for _ in range(spec.get("nbig", 1)):
        ns = rng.choice([260, 330, 420, 600])
        no = rng.randint(20, 50)
        import sys

        sys.setrecursionlimit(20000)
        Sn = RT.random_tree_shape(rng, [f"s{i}" for i in range(ns)], kind=rng.choice(["rand", "bal"]))
        Gn = RT.random_tree_shape(rng, gen.object_labels(no), kind="rand")
        lm = {g: f"s{rng.randrange(ns)}" for g in gen.object_labels(no)}
        ctx.count("mon.big_species_trees")
        check_input(ctx, Gn, Sn, lm, [], [])
    if spec["i"] == 0:
        # one huge species tree (17 000 leaves, ~34 000 nodes: Euler tour beyond 65 536 entries), genes in species
        # visited late in depth-first order as well
        ns = 17000
        import sys

        sys.setrecursionlimit(20000)
        Sn = RT.balanced([f"s{i}" for i in range(ns)])
        no = 12
        labels = gen.object_labels(no)
        # half of the genes form a clade that lives entirely in the species visited last (and another one in those visited
        # first), the rest is spread out
        late, early = labels[:4], labels[4:7]
        Gn = [[RT.random_tree_shape(rng, late, kind="rand"), RT.random_tree_shape(rng, early, kind="rand")], RT.random_tree_shape(rng, labels[7:], kind="rand")]
        lm = {g: f"s{rng.randrange(ns)}" for g in labels}
        lm.update({g: f"s{ns - 1 - rng.randrange(40)}" for g in late})
        lm.update({g: f"s{rng.randrange(40)}" for g in early})
        ctx.count("mon.huge_species_tree")
        check_input(ctx, Gn, Sn, lm, [], [])
    # bounded-exhaustive at the next size for the mapping alone: every 6-leaf object tree on every species tree with
    # up to 4 (thorough: 5) leaves, every leaf assignment
    xi = 0
    for Gn, Sn, lm in gen.exhaustive_inputs(6, spec.get("map6_sp", 4)):
        if len(lm) < 6:
            continue
        xi += 1
        if xi % spec["n"] != spec["i"]:
            continue
        check_mapping_only(ctx, Gn, Sn, lm)
        if ctx.too_many():
            return
    for _ in range(spec.get("nblock", 120)):
        Gn, Sn, lm = gen.block_dup_input(rng)
        ctx.count("block_duplication_cases")
        check_input(ctx, Gn, Sn, lm, rng.sample(PAIRS, 2), [])
        if ctx.too_many():
            return
    for _ in range(spec["nrand"]):
        Gn, Sn, lm = gen.random_input(rng, 10, 8, min_obj=5, min_sp=3)
        check_input(ctx, Gn, Sn, lm, rng.sample(PAIRS, 4), rng.sample(PAIRS, 2))
        ctx.count("random_cases")
        if ctx.too_many():
            return


def replay(ctx, case):
    c = case["costs"]
    check_input(ctx, case["G"], case["S"], case["leafmap"], [(c["dup"], c["floss"])], [(c["dup"], c["floss"])])
