"""C17 Ancestry and range-minimum queries are exact."""
import itertools

from rv.core import Inconclusive
from rv.refmodel import trees as RT
from rv.refmodel.trees import T

META = {
    "rule": (
        "Each evaluation is one query (lca of 1-3 nodes, is_ancestor_of, is_strict_ancestor_of, is_comparable, level, "
        "distance, or one range-minimum query) on the real structures, judged by parent-chain definitions / min(arr[i:j]). "
        "Trees: every rooted ordered tree with <=N nodes (any arity, unary nodes included), all pairs and triples; random "
        "trees up to 40 nodes; plus the queries the real solvers make (in situ); plus histories: a tree is indexed, edited in "
        "place (children reversed, subtree moved, leaf added, subtree cut) and indexed again, and two structures live on one tree. Non-trivial: tree with >=3 nodes or array "
        "with >=2 elements; distinct = (tree shape | array, query kind)."
    ),
    "floors": {
        "quick": {"evaluations": 100000, "mon.lca": 30000, "mon.rmq": 20000, "mon.insitu_lca": 1000, "mon.reindex": 100},
        "thorough": {"evaluations": 2000000, "mon.lca": 500000, "mon.rmq": 500000, "mon.insitu_lca": 10000, "mon.reindex": 1000},
    },
    "exhaustive": {"quick": True, "thorough": True},
    "space": {"quick": "all rooted ordered trees <=6 nodes; all arrays over {0,1,2} up to length 8, all ranges", "thorough": "all rooted ordered trees <=8 nodes; all arrays over {0,1,2} up to length 10, all ranges (incl. empty and reversed)"},
    "assumptions": ["R-TREE parent-chain definitions"],
    "timeout": {"quick": 420, "thorough": 3600},
}


def plan(tier, seed):
    n = 16
    q = tier == "quick"
    specs = [{"kind": "trees", "i": i, "n": n, "maxnodes": 6 if q else 8, "nrand": 6 if q else 60} for i in range(n)]
    specs += [{"kind": "rmq", "i": i, "n": n, "maxlen": 8 if q else 10, "nrand": 50 if q else 400} for i in range(n)]
    specs += [{"kind": "insitu", "i": i, "count": 4 if q else 40} for i in range(4)]
    return specs


def ete_from_shape(shape):
    """ete3 tree built programmatically (unary nodes allowed); returns root and preorder node list."""
    from ete3 import Tree

    counter = [0]

    def build(sh):
        node = Tree()
        node.name = f"n{counter[0]}"
        counter[0] += 1
        if sh is not None:
            for c in sh:
                node.add_child(build(c))
        return node

    root = build(shape)
    return root, list(root.traverse("preorder"))


def model_from_shape(shape):
    counter = [0]

    def nest(sh):
        nm = f"n{counter[0]}"
        counter[0] += 1
        if sh is None or len(sh) == 0:
            return nm
        return {"name": nm, "ch": [nest(c) for c in sh]}

    return T(nest(shape))


def shape_of_ete(node):
    return tuple(shape_of_ete(c) for c in node.children) if node.children else None


def apply_edits(root, ops):
    """In-place edits of an ete3 tree that was (possibly) indexed before; ops refer to pre-order positions of the
    tree as it is when the op is applied."""
    for op in ops:
        nodes = list(root.traverse("preorder"))
        if op[0] == "rev":
            nodes[op[1] % len(nodes)].children.reverse()
        elif op[0] == "move":
            a = nodes[op[1] % len(nodes)]
            b = nodes[op[2] % len(nodes)]
            if a is root or a is b or a in b.get_ancestors() or b is a.up:
                continue
            a.detach()
            b.add_child(a)
        elif op[0] == "leaf":
            from ete3 import Tree

            leaf = Tree()
            leaf.name = f"new{len(nodes)}"
            nodes[op[1] % len(nodes)].add_child(leaf)
        elif op[0] == "cut":
            a = nodes[op[1] % len(nodes)]
            if a is not root and len(nodes) > 2:
                a.detach()


def check_reindexed(ctx, shape, ops, rng=None):
    """History workload: index a tree, query it, edit the same node objects in place, index again.  The second
    structure must answer for the tree as it is now (nothing may survive from the first indexing), and a second
    structure built on an unedited tree must not disturb the first."""
    from superrec2.utils.trees import LowestCommonAncestor

    case = {"kind": "reindex", "shape": RT.tolist(shape), "ops": [list(o) for o in ops]}
    root, nodes = ete_from_shape(shape)
    try:
        L1 = LowestCommonAncestor(root)
        L1(nodes[0], nodes[-1])
        L1b = LowestCommonAncestor(root)
        L1b(nodes[-1], nodes[0])
    except Exception as exc:  # noqa: BLE001
        ctx.viol("C17.lca", case, f"constructor/query raised {type(exc).__name__}: {exc}")
        return
    # two live structures on the same unedited tree: both must be right
    check_tree(ctx, shape, triples=False, pairs_cap=300, rng=rng, prepared=(root, nodes, model_from_shape(shape), dict(case, phase="first index after a second one was built"), L1), monitor="C17.reindex")
    apply_edits(root, ops)
    shape2 = shape_of_ete(root)
    nodes2 = list(root.traverse("preorder"))
    ctx.count("mon.reindex")
    check_tree(ctx, shape2, triples=len(nodes2) <= 7, pairs_cap=600, rng=rng, prepared=(root, nodes2, model_from_shape(shape2), dict(case, phase="fresh index after in-place edits"), None), monitor="C17.reindex")


def check_tree(ctx, shape, triples=True, pairs_cap=None, rng=None, prepared=None, monitor="C17.lca"):
    from superrec2.utils.trees import LowestCommonAncestor

    L = None
    if prepared is not None:
        root, nodes, M, case, L = prepared
    else:
        case = {"kind": "tree", "shape": RT.tolist(shape)}
        root, nodes = ete_from_shape(shape)
        M = model_from_shape(shape)
    assert len(nodes) == len(M.nodes)
    try:
        if L is None:
            L = LowestCommonAncestor(root)
    except Exception as exc:  # noqa: BLE001
        ctx.viol(monitor, case, f"constructor raised {type(exc).__name__}: {exc}")
        return
    idx = {n: i for i, n in enumerate(nodes)}
    n = len(nodes)

    def bad(kind, args, got, want):
        ctx.viol(monitor, dict(case, query=kind, args=list(args)), f"{kind}{tuple(args)} = {got}, definition gives {want}" + (f" ({case['phase']})" if "phase" in case else ""))

    cnt = 0
    try:
        for a in range(n):
            got = idx[L(nodes[a])]
            cnt += 1
            if got != a:
                bad("lca", (a,), got, a)
            if L.level(nodes[a]) != M.depth[a]:
                bad("level", (a,), L.level(nodes[a]), M.depth[a])
            cnt += 1
        if pairs_cap and n * n > pairs_cap:
            pair_list = [(rng.randrange(n), rng.randrange(n)) for _ in range(pairs_cap)]
        else:
            pair_list = list(itertools.product(range(n), repeat=2))
        for a, b in pair_list:
            na, nb = nodes[a], nodes[b]
            got = idx[L(na, nb)]
            want = M.lca(a, b)
            if got != want:
                bad("lca", (a, b), got, want)
            for kind, g, w in (
                ("is_ancestor_of", L.is_ancestor_of(na, nb), M.is_anc(a, b)),
                ("is_strict_ancestor_of", L.is_strict_ancestor_of(na, nb), M.is_strict_anc(a, b)),
                ("is_comparable", L.is_comparable(na, nb), M.comparable(a, b)),
                ("distance", L.distance(na, nb), M.dist(a, b)),
            ):
                if g != w:
                    bad(kind, (a, b), g, w)
            cnt += 5
        if triples:
            if pairs_cap and n ** 3 > pairs_cap:
                trip = [(rng.randrange(n), rng.randrange(n), rng.randrange(n)) for _ in range(pairs_cap)]
            else:
                trip = list(itertools.product(range(n), repeat=3))
            for a, b, c in trip:
                got = idx[L(nodes[a], nodes[b], nodes[c])]
                want = M.lca(a, b, c)
                cnt += 1
                if got != want:
                    bad("lca", (a, b, c), got, want)
    except Exception as exc:  # noqa: BLE001
        ctx.viol(monitor, case, f"query raised {type(exc).__name__}: {exc}")
    ctx.count("evaluations", cnt)
    ctx.count("mon.lca", cnt)
    if prepared is not None:
        ctx.count("mon.reindex_queries", cnt)
    ctx.count("trees")
    ctx.sig(("tree", repr(shape) if n <= 8 else (n, max(len(M.children[v]) for v in M.nodes), max(M.depth.values()))), n >= 3)
    if n >= 5:
        ctx.sample(case)


def check_rmq(ctx, arr, ranges=None):
    from superrec2.utils.range_min_query import RangeMinQuery

    case = {"kind": "rmq", "arr": list(arr)}
    try:
        R = RangeMinQuery(list(arr))
    except Exception as exc:  # noqa: BLE001
        ctx.viol("C17.rmq", case, f"constructor raised {type(exc).__name__}: {exc}")
        return
    n = len(arr)
    cnt = 0
    if ranges is None:
        ranges = [(i, j) for i in range(n + 1) for j in range(n + 1)]
    for i, j in ranges:
        want = min(arr[i:j]) if i < j else None
        try:
            got = R(i, j)
        except Exception as exc:  # noqa: BLE001
            ctx.viol("C17.rmq", dict(case, range=[i, j]), f"query ({i},{j}) raised {type(exc).__name__}: {exc}")
            continue
        cnt += 1
        if got != want:
            ctx.viol("C17.rmq", dict(case, range=[i, j]), f"min of [{i},{j}) = {got}, expected {want}")
    ctx.count("evaluations", cnt)
    ctx.count("mon.rmq", cnt)
    ctx.sig(("rmq", tuple(arr) if n <= 9 else (n, len(set(arr)))), n >= 2)
    if n >= 4:
        ctx.sample(case, cap=6)


def random_ops(rng, n, k):
    ops = []
    for _ in range(k):
        kind = rng.choice(["rev", "rev", "move", "move", "leaf", "cut"])
        if kind == "rev":
            ops.append(("rev", rng.randrange(n)))
        elif kind == "move":
            ops.append(("move", rng.randrange(1, n + 1), rng.randrange(n)))
        elif kind == "leaf":
            ops.append(("leaf", rng.randrange(n)))
        else:
            ops.append(("cut", rng.randrange(1, n + 1)))
    return ops


class InSituLCA:
    """L1: contract on LowestCommonAncestor.__call__/distance/is_* for the calls the solvers make."""

    def __init__(self, ctx, case):
        import superrec2.utils.trees as UT
        from rv.bridge import model_from_ete

        self.UT = UT
        self.ctx = ctx
        self.case = case
        self.models = {}
        self.n = 0
        K = UT.LowestCommonAncestor
        self.saved = {name: getattr(K, name) for name in ("__call__", "distance", "is_ancestor_of", "is_strict_ancestor_of", "is_comparable")}
        mon = self

        def model(self_):
            key = id(self_)
            if key not in mon.models:
                mon.models[key] = (self_, model_from_ete(self_.tree))
            return mon.models[key][1]

        def wrap(name, want_fn):
            orig = mon.saved[name]

            def wrapper(self_, *nodes, **kw):
                res = orig(self_, *nodes, **kw)
                if kw:
                    return res
                try:
                    M, ids = model(self_)
                    args = [ids[x] for x in nodes]
                    want = want_fn(M, *args)
                    got = ids.get(res, res) if name == "__call__" else res
                except (KeyError, TypeError, AttributeError, AssertionError, ValueError):
                    return res  # called in a way / on a structure the contract does not know: not observed
                mon.n += 1
                if got != want:
                    mon.ctx.viol("C17.insitu", dict(mon.case, query=name, args=args), f"in-situ {name}{tuple(args)} = {got}, definition gives {want}")
                return res

            setattr(K, name, wrapper)

        wrap("__call__", lambda M, *a: M.lca(*a))
        wrap("distance", lambda M, a, b: M.dist(a, b))
        wrap("is_ancestor_of", lambda M, a, b: M.is_anc(a, b))
        wrap("is_strict_ancestor_of", lambda M, a, b: M.is_strict_anc(a, b))
        wrap("is_comparable", lambda M, a, b: M.comparable(a, b))

    def detach(self):
        for name, f in self.saved.items():
            setattr(self.UT.LowestCommonAncestor, name, f)


def insitu_case(ctx, case):
    from rv import bridge, solvercheck as SC

    B = bridge.Built(case)
    mon = InSituLCA(ctx, case)
    try:
        obs = SC.call(case["algo"], B.inp, bridge.ALL)
        for out in obs.outs[:20]:
            out.cost()
    finally:
        mon.detach()
    ctx.count("evaluations", mon.n)
    ctx.count("mon.insitu_lca", mon.n)
    ctx.sig(("insitu", case["algo"], len(B.G.leaves()), len(B.S.leaves())), mon.n > 0)


def canaries(ctx):
    M = model_from_shape(((None, None), None))
    ok = M.lca(2, 3) == 1 and M.lca(2, 4) == 0 and M.dist(2, 4) == 3 and not M.is_strict_anc(1, 1) and M.is_anc(1, 1)
    ctx.count("canaries")
    if not ok:
        raise Inconclusive("C17 reference model canary failed")


def run(ctx, spec):
    if spec["kind"] == "trees":
        idx = 0
        for n in range(1, spec["maxnodes"] + 1):
            for shape in RT.rooted_ordered_trees(n):
                idx += 1
                if idx % spec["n"] != spec["i"]:
                    continue
                check_tree(ctx, shape, triples=n <= 7)
                if ctx.too_many():
                    return
        rng = ctx.rng("reindex")
        idx = 0
        for n in range(2, min(spec["maxnodes"], 6) + 1):
            for shape in RT.rooted_ordered_trees(n):
                idx += 1
                if idx % spec["n"] != spec["i"]:
                    continue
                for rep in range(2):
                    check_reindexed(ctx, shape, random_ops(rng, n, 1 + rep), rng=rng)
                if ctx.too_many():
                    return
        rng = ctx.rng("randtrees")
        for k in range(spec["nrand"]):
            n = rng.randint(9, 40)
            kind = rng.choice(["rand", "cat", "star", "rand"])
            parents = [None]
            for v in range(1, n):
                if kind == "cat":
                    parents.append(v - 1 if rng.random() < 0.8 else rng.randrange(v))
                elif kind == "star":
                    parents.append(0 if rng.random() < 0.8 else rng.randrange(v))
                else:
                    parents.append(rng.randrange(v))
            ch = {v: [] for v in range(n)}
            for v in range(1, n):
                ch[parents[v]].append(v)

            def shape_of(v):
                return tuple(shape_of(c) for c in ch[v]) if ch[v] else None

            import sys

            sys.setrecursionlimit(10000)
            check_tree(ctx, shape_of(0), triples=True, pairs_cap=1500, rng=rng)
            check_reindexed(ctx, shape_of(0), random_ops(rng, n, rng.randint(1, 4)), rng=rng)
        # lopsided trees: one root child is bushy (many leaves, few nodes), another holds long chains of single-child
        # nodes (few leaves, many nodes) - leaf counts and node counts disagree about which side is "large"
        for k in range(12 if ctx.tier == "quick" else 150):
            def chain(n, tail):
                sh = tail
                for _ in range(n):
                    sh = (sh,)
                return sh

            bushy = tuple(None for _ in range(rng.randint(2, 6))) if rng.random() < 0.5 else ((None, None), (None, None), None)
            chains = tuple(chain(rng.randint(3, 9), rng.choice([None, (None, None)])) for _ in range(rng.randint(2, 3)))
            heavy = chains if rng.random() < 0.6 else (chains,)
            kids = [bushy, heavy] + ([chain(rng.randint(1, 4), None)] if rng.random() < 0.3 else [])
            rng.shuffle(kids)
            ctx.count("mon.lopsided_trees")
            check_tree(ctx, tuple(kids), triples=False, pairs_cap=2500, rng=rng)
        # deep trees: a spine of 500-700 single-child nodes with a few side branches and a small clade at the bottom
        # (levels and distances across level ~500, well past typical recursion hand-offs)
        for k in range(1 if ctx.tier == "quick" else 6):
            import sys

            sys.setrecursionlimit(30000)
            depth = rng.choice([490, 520, 600, 700])
            sh = ((None, None), None)
            for d in range(depth):
                sh = (sh,) if rng.random() < 0.97 else ((sh, None) if rng.random() < 0.5 else (None, sh))
            ctx.count("mon.deep_trees")
            check_tree(ctx, sh, triples=False, pairs_cap=3000, rng=rng)
        # big trees (hundreds to thousands of nodes): sparse-table levels 10+, Euler tours longer than 1024/2048 entries
        for k in range(2 if ctx.tier == "quick" else 8):
            n = rng.choice([300, 700, 1100, 1600, 2500])
            kind = rng.choice(["rand", "binary", "deepish"])
            parents = [None]
            nch = {0: 0}
            for v in range(1, n):
                if kind == "binary":
                    cand = [u for u in range(max(0, v - 40), v) if nch[u] < 2] or [u for u in range(v) if nch[u] < 2]
                    p = rng.choice(cand)
                elif kind == "deepish":
                    p = rng.randrange(max(0, v - 40), v)  # depth about n/20: recursion in the harness (shape, model) stays shallow
                else:
                    p = rng.randrange(v)
                parents.append(p)
                nch[p] += 1
                nch[v] = 0
            chb = {v: [] for v in range(n)}
            for v in range(1, n):
                chb[parents[v]].append(v)

            def shape_big(v):
                return tuple(shape_big(c) for c in chb[v]) if chb[v] else None

            import sys

            sys.setrecursionlimit(20000)
            ctx.count("mon.big_trees")
            check_tree(ctx, shape_big(0), triples=True, pairs_cap=4000, rng=rng)
        # one huge tree (tens of thousands of nodes: Euler tour beyond 65 536 entries, 17+ sparse-table levels)
        if spec["i"] == 0:
            for n in ([34000] if ctx.tier == "quick" else [34000, 50000, 70000]):
                parents = [None]
                for v in range(1, n):
                    parents.append(rng.randrange(max(0, (v - 1) // 2 - 3), (v - 1) // 2 + 1))  # heap-like: depth O(log n)
                chh = {v: [] for v in range(n)}
                for v in range(1, n):
                    chh[parents[v]].append(v)

                def shape_huge(v):
                    return tuple(shape_huge(c) for c in chh[v]) if chh[v] else None

                ctx.count("mon.huge_trees")
                check_tree(ctx, shape_huge(0), triples=True, pairs_cap=3000, rng=rng)
    elif spec["kind"] == "rmq":
        idx = 0
        for n in range(1, spec["maxlen"] + 1):
            for arr in itertools.product((0, 1, 2), repeat=n):
                idx += 1
                if idx % spec["n"] != spec["i"]:
                    continue
                check_rmq(ctx, arr)
                if ctx.too_many():
                    return
        rng = ctx.rng("rmq")
        for _ in range(spec["nrand"]):
            n = rng.randint(10, 70)
            arr = [rng.randint(-5, 5) for _ in range(n)] if rng.random() < 0.7 else [(rng.randint(0, 3), rng.randint(0, 9)) for _ in range(n)]
            ranges = [(rng.randint(0, n), rng.randint(0, n)) for _ in range(200)]
            # every range whose length is a power of two or one off it (sparse-table level boundaries), and the full array
            for ln in (1, 2, 3, 4, 7, 8, 9, 15, 16, 17, 31, 32, 33, 63, 64, 65):
                ranges += [(i, i + ln) for i in range(0, n - ln + 1)]
            ranges.append((0, n))
            check_rmq(ctx, arr, ranges)
        # long arrays: ranges wider than 1024 / 2048 / 4096 entries (top levels of the sparse table)
        for _ in range(2 if ctx.tier == "quick" else 10):
            n = rng.choice([1025, 1500, 2049, 3000, 4100, 5000])
            arr = [rng.randint(0, 50) for _ in range(n)]
            if rng.random() < 0.5:
                # a unique minimum in the middle of the array: only visible to ranges that really cover it
                arr = [x + 5 for x in arr]
                arr[n // 2 + rng.randint(-20, 20)] = 0
            ranges = [(rng.randint(0, n), rng.randint(0, n)) for _ in range(400)]
            for ln in (511, 512, 513, 1023, 1024, 1025, 1026, 1500, 2047, 2048, 2049, 3000, 4095, 4096, 4097, n - 1, n):
                if ln <= n:
                    ranges += [(i, i + ln) for i in sorted({0, 1, 2, (n - ln) // 2, max(0, n - ln - 1), n - ln}) if i + ln <= n]
            ctx.count("mon.big_arrays")
            check_rmq(ctx, arr, ranges)
    else:
        from rv import gen

        rng = ctx.rng("insitu")
        for k in range(spec["count"]):
            algo = ["thl", "superdtl", "ext_spfs", "lca", "exh"][k % 5]
            Gn, Sn, lm = gen.random_input(rng, 6, 6, min_obj=2, min_sp=2)
            case = {"kind": "insitu", "algo": algo, "G": Gn, "S": Sn, "leafmap": lm, "costs": gen.tame(gen.random_cost(rng), len(lm))}
            if algo in ("superdtl", "ext_spfs"):
                case["syn"] = gen.random_syntenies(rng, list(lm), 3, ordered=algo == "ext_spfs", consistent_p=1.0)
            insitu_case(ctx, case)


def replay(ctx, case):
    def tup(x):
        return None if x is None else tuple(tup(c) for c in x)

    if case["kind"] == "reindex":
        import random

        check_reindexed(ctx, tup(case["shape"]), [tuple(o) for o in case["ops"]], rng=random.Random(0))
    elif case["kind"] == "tree":
        check_tree(ctx, tup(case["shape"]))
    elif case["kind"] == "rmq":
        check_rmq(ctx, [tuple(x) if isinstance(x, list) else x for x in case["arr"]])
    else:
        insitu_case(ctx, case)
