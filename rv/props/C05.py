"""C05 ALL = exactly the optimal set (each once), ANY = one of it."""
import collections
import math

from rv import bridge, gen, solvercheck as SC, suite
from rv.bridge import ALL, ANY
from rv.core import Inconclusive, skippable
from rv.refmodel import dtl, label

INF = math.inf
ALGOS = ["thl", "exh", "base_spfs", "ext_spfs", "base_uspfs", "superdtl"]
META = {
    "rule": (
        "Each evaluation is one call of an algorithm under ALL or ANY on the same input object; the returned collection is "
        "converted by the harness to clade-keyed canonical forms and compared as a multiset with the explicit optimal set of "
        "the reference model (R-DTL / R-ORD back-tracking; R-UNORD restricted to the canonical labellings named in the "
        "property): nothing missing, nothing extra, nothing twice; |ANY| = 1 and ANY in ALL and in the model set; all costs "
        "equal; empty iff the model has no valid solution. Workload biased to ties (floss=0, equal dup/hgt, repeated "
        "species). Non-trivial: >=2 object leaves and model optimal set of size >=2; distinct = (algorithm, sizes, event "
        "counts of an optimum, |optimal set| exact up to 12, cost-vector flags)."
    ),
    "floors": {
        "quick": {"evaluations": 4000, "mon.all_set": 2000, "mon.any": 2000, "ties_seen": 300},
        "thorough": {"evaluations": 80000, "mon.all_set": 40000, "mon.any": 40000, "ties_seen": 5000},
    },
    "exhaustive": {"quick": True, "thorough": True},
    "space": {
        "quick": "plain: all inputs <=3x3 x 14 tie-biased cost vectors (thl, exh) + random up to 6x5; labelled: random up to 4 object leaves / 3 species leaves / 3 families",
        "thorough": "plain: all inputs <=4x3 x 20 tie-biased cost vectors + random up to 7x6; labelled: all inputs <=3x2 x all subset assignments over 2 families x 6 cost vectors + random up to 5/4/4",
    },
    "assumptions": ["explicit optimal set of the reference model (cap 3000 solutions; larger sets are skipped and counted)", "cost vectors in the coherent region as quantified"],
    "timeout": {"quick": 420, "thorough": 7200},
}


# loss-heavy vectors (loss dearer than a transfer): ties between a deep placement and a transfer
LOSS_HEAVY = [
    {"spe": 0, "dup": 1, "hgt": 1, "floss": 2, "sloss": 1}, {"spe": 0, "dup": 3, "hgt": 1, "floss": 2, "sloss": 1},
    {"spe": 0, "dup": 1, "hgt": 1, "floss": 1, "sloss": 1}, {"spe": 0, "dup": 2, "hgt": 2, "floss": 3, "sloss": 1},
    {"spe": 1, "dup": 1, "hgt": 2, "floss": 2, "sloss": 1}, {"spe": 0, "dup": 1, "hgt": 3, "floss": 4, "sloss": 1},
]


def plan(tier, seed):
    if tier == "quick":
        specs = [{"kind": "plain_exh", "i": i, "n": 6, "max_obj": 3, "max_sp": 3, "ncost": 14} for i in range(6)]
        specs += [{"kind": "plain_rand", "i": i, "count": 100, "max_obj": 6, "max_sp": 5} for i in range(8)]
        specs += [{"kind": "super_rand", "i": i, "count": 80, "max_obj": 5, "max_sp": 3, "max_fam": 4} for i in range(12)]
        specs += [{"kind": "deep", "i": i, "count": 160} for i in range(16)]
        specs += [{"kind": "plain_exh44", "i": i, "n": 16, "costs": LOSS_HEAVY[:2]} for i in range(16)]
        return specs
    specs = [{"kind": "plain_exh", "i": i, "n": 16, "max_obj": 4, "max_sp": 3, "ncost": 20} for i in range(16)]
    specs += [{"kind": "plain_rand", "i": i, "count": 500, "max_obj": 7, "max_sp": 6} for i in range(8)]
    specs += [{"kind": "super_exh", "i": i, "n": 16, "max_obj": 3, "max_sp": 2, "nfam": 2, "ncost": 6} for i in range(16)]
    specs += [{"kind": "super_rand", "i": i, "count": 400, "max_obj": 5, "max_sp": 4, "max_fam": 4} for i in range(24)]
    specs += [{"kind": "deep", "i": i, "count": 1200} for i in range(32)]
    specs += [{"kind": "plain_exh44", "i": i, "n": 32, "costs": LOSS_HEAVY} for i in range(32)]
    return specs


def judge_all(model_min, model_set, obs, B, kind):
    """-> list of (monitor, msg, details)"""
    if obs.exc is not None:
        return [("total", f"solver raised: {obs.exc}", {})]
    fails = []
    got = SC.canon_set(obs)
    if any(x is None for x in got):
        fails.append(("all_extra", "a returned solution is malformed (incomplete mapping / labelling)", {}))
    cnt = collections.Counter(x for x in got if x is not None)
    dup = [k for k, n in cnt.items() if n > 1]
    if dup:
        fails.append(("all_dup", f"{len(dup)} solution(s) returned more than once", {}))
    if model_min == INF:
        if got:
            fails.append(("empty", "non-empty result although the model has no valid solution", {}))
        return fails
    if not got:
        return [("empty", f"empty result although the model has {len(model_set)} optimal solution(s)", {})]
    missing = model_set - set(cnt)
    extra = set(cnt) - model_set
    if missing:
        fails.append(("all_missing", f"ALL returned {len(cnt)} solution(s); {len(missing)} of the {len(model_set)} optimal solutions are missing", {"missing_example": sorted(next(iter(missing)), key=repr)}))
    if extra:
        fails.append(("all_extra", f"ALL returned {len(extra)} solution(s) that are not in the model's optimal set", {"extra_example": sorted(next(iter(extra)), key=repr)}))
    costs = {SC.model_cost(e, B.c, kind) for e in obs.ext}
    if len(costs) > 1 or (costs and costs != {model_min}):
        fails.append(("cost", f"returned solutions have costs {sorted(costs, key=repr)}, model minimum {model_min}", {}))
    return fails


def judge_any(model_min, model_set, obs_any, obs_all, B, kind):
    if obs_any.exc is not None:
        return [("total", f"solver raised: {obs_any.exc}", {})]
    got = SC.canon_set(obs_any)
    if model_min == INF:
        return [("empty", "ANY returned a solution although the model has none", {})] if got else []
    if len(got) != 1:
        return [("any", f"ANY returned {len(got)} solutions instead of exactly one", {})]
    fails = []
    if got[0] is None or got[0] not in model_set:
        fails.append(("any", "the ANY solution is not in the model's optimal set", {}))
    if obs_all.exc is None and got[0] not in set(SC.canon_set(obs_all)):
        fails.append(("any", "the ANY solution does not belong to the returned ALL set", {}))
    return fails


@skippable
def check_case(ctx, case, report=None):
    report = report or (lambda mon, msg, **d: ctx.viol(f"C05.{mon}", case, msg, **d))
    B = bridge.Built(case)
    for algo in case["algos"]:
        kind = SC.kind_of(algo)
        if algo == "exh" and dtl.count_recs(B.G, B.S, B.leafmap) > 30000:
            continue
        mn, mset = suite.model_solve(B, algo, want_set=True, canonical=True)
        if mset is None:
            ctx.count("skipped_large_optimal_set")
            continue
        if kind == "unordered":
            full, _ = suite.model_solve(B, algo, canonical=False)
            if full != mn:
                ctx.count("canonical_gap")  # belongs to C03; the canonical set is still what C05 names
        obs_all = SC.call(algo, B.inp, ALL)
        obs_any = SC.call(algo, B.inp, ANY)
        ctx.count("evaluations", 2)
        ctx.count("mon.all_set")
        ctx.count("mon.any")
        if len(mset) >= 2:
            ctx.count("ties_seen")
        for mon, msg, d in judge_all(mn, mset, obs_all, B, kind):
            report(mon, f"{algo}/ALL: {msg}", algo=algo, **d)
        for mon, msg, d in judge_any(mn, mset, obs_any, obs_all, B, kind):
            report(mon, f"{algo}/ANY: {msg}", algo=algo, **d)
        one = None
        if kind == "plain" and mset:
            one, _ = suite.one_optimal_mapping(B)
        sig = (algo, len(B.G.leaves()), len(B.S.leaves()), min(len(mset), 12), mn if mn == INF or mn <= 10 else 11,
               B.c["floss"] == 0, B.c["hgt"] == INF, B.c["dup"] == B.c["hgt"], B.c.get("sloss") == 0,
               tuple(sorted(dtl.event_counts(B.G, B.S, one).items())) if one else None)
        ctx.sig(sig, len(B.G.leaves()) >= 2 and len(mset) >= 2)
    return B


def canaries(ctx):
    case = {"G": [["g0", "g1"], "g2"], "S": ["A", "B"], "leafmap": {"g0": "A", "g1": "B", "g2": "A"},
            "costs": {"spe": 0, "dup": 1, "hgt": 1, "floss": 0, "sloss": 1}}
    B = bridge.Built(case)
    mn, sols = dtl.dp_opt_set(B.G, B.S, B.leafmap, B.c)
    mset = {bridge.canon(B.G, B.S, m) for m in sols}
    ok = len(sols) >= 2

    def obs_of(ms):
        o = SC.Obs()
        o.outs = [B.output(m) for m in ms]
        o.ext = [bridge.extract(x) for x in o.outs]
        return o

    full = obs_of(sols)
    ok &= not judge_all(mn, mset, full, B, "plain")
    ok &= any(m == "all_missing" for m, _, _ in judge_all(mn, mset, obs_of(sols[1:]), B, "plain"))
    ok &= any(m == "all_dup" for m, _, _ in judge_all(mn, mset, obs_of(sols + sols[:1]), B, "plain"))
    worse = next(m for m in dtl.all_recs(B.G, B.S, B.leafmap) if dtl.rec_cost(B.G, B.S, m, B.c) > mn)
    ok &= any(m == "all_extra" for m, _, _ in judge_all(mn, mset, obs_of(sols + [worse]), B, "plain"))
    ok &= any(m == "empty" for m, _, _ in judge_all(mn, mset, obs_of([]), B, "plain"))
    ok &= not judge_any(mn, mset, obs_of(sols[:1]), full, B, "plain")
    ok &= bool(judge_any(mn, mset, obs_of(sols[:2]), full, B, "plain"))
    ok &= bool(judge_any(mn, mset, obs_of([worse]), full, B, "plain"))
    ok &= bool(judge_any(mn, mset, obs_of([]), full, B, "plain"))
    ctx.count("canaries")
    if not ok:
        raise Inconclusive("C05 canary accepted by the oracle")


def RT_leaves(nested):
    return [nested] if isinstance(nested, str) else [x for c in nested for x in RT_leaves(c)]


def tie_costs(n, seed, plain):
    import random

    rng = random.Random(seed * 101 + (1 if plain else 2))
    out = []
    seen = set()
    base = [{"spe": 0, "dup": 1, "hgt": 1, "floss": 0, "sloss": 1}, dict(gen.DEFAULT), {"spe": 0, "dup": 0, "hgt": 0, "floss": 0, "sloss": 0},
            {"spe": 1, "dup": 1, "hgt": 1, "floss": 0, "sloss": 0}, {"spe": 2, "dup": 3, "hgt": 4, "floss": 1, "sloss": 1}, {"spe": 0, "dup": 1, "hgt": "inf", "floss": 1, "sloss": 1},
            {"spe": 0, "dup": 2, "hgt": 1, "floss": 1, "sloss": 1}]
    for c in base:
        if repr(c) not in seen:
            seen.add(repr(c))
            out.append(c)
    while len(out) < n:
        c = gen.tie_cost(rng, plain)
        if repr(c) not in seen:
            seen.add(repr(c))
            out.append(c)
    return out[:n]


def run(ctx, spec):
    kind = spec["kind"]
    if kind == "plain_exh":
        costs = tie_costs(spec["ncost"], ctx.seed, True)
        idx = 0
        for Gn, Sn, lm in gen.exhaustive_inputs(spec["max_obj"], spec["max_sp"]):
            for c in costs:
                idx += 1
                if idx % spec["n"] != spec["i"]:
                    continue
                case = {"kind": "c05", "algos": ["thl", "exh"], "G": Gn, "S": Sn, "leafmap": lm, "costs": c}
                check_case(ctx, case)
                if len(lm) >= 3:
                    ctx.sample(case)
                if ctx.too_many():
                    return
    elif kind == "plain_exh44":
        idx = 0
        for Gn, Sn, lm in gen.exhaustive_inputs(4, 4, mirrored=True):
            if len(lm) < 4 or isinstance(Sn, str) or len(RT_leaves(Sn)) < 4:
                continue
            for c in spec["costs"]:
                idx += 1
                if idx % spec["n"] != spec["i"]:
                    continue
                check_case(ctx, {"kind": "c05", "algos": ["thl"], "G": Gn, "S": Sn, "leafmap": lm, "costs": c})
                ctx.count("exh44_cases")
                if ctx.too_many():
                    return
    elif kind == "plain_rand":
        rng = ctx.rng("plain")
        for _ in range(spec["count"]):
            Gn, Sn, lm = gen.random_input(rng, spec["max_obj"], spec["max_sp"], min_obj=3)
            case = {"kind": "c05", "algos": ["thl", "exh"] if len(lm) <= 5 else ["thl"], "G": Gn, "S": Sn, "leafmap": lm, "costs": gen.tame(gen.tie_cost(rng, True), len(lm))}
            check_case(ctx, case)
            if ctx.too_many():
                return
    elif kind == "super_exh":
        costs = tie_costs(spec["ncost"], ctx.seed, False)
        idx = 0
        for ordered in (True, False):
            algos = ["ext_spfs", "base_spfs"] if ordered else ["superdtl", "base_uspfs"]
            for Gn, Sn, lm in gen.exhaustive_inputs(spec["max_obj"], spec["max_sp"], mirrored=False):
                for syn in gen.all_subset_syntenies(list(lm), gen.families(spec["nfam"]), ordered_variants=ordered):
                    for c in costs:
                        idx += 1
                        if idx % spec["n"] != spec["i"]:
                            continue
                        check_case(ctx, {"kind": "c05", "algos": algos, "G": Gn, "S": Sn, "leafmap": lm, "syn": syn, "costs": c})
                        if ctx.too_many():
                            return
    elif kind == "deep":
        rng = ctx.rng("deep")
        for k in range(spec["count"]):
            ordered = k % 4 == 0
            algos = ["ext_spfs"] if ordered else ["superdtl", "base_uspfs"]
            case = gen.deep_super_case(rng, ordered=ordered, max_obj=6 if ordered else 7, max_fam=4 if ordered else 5)
            case.update(kind="c05", algos=algos)
            check_case(ctx, case)
            ctx.count("deep_cases")
            if ctx.too_many():
                return
    else:
        rng = ctx.rng("super")
        for k in range(spec["count"]):
            ordered = k % 2 == 0
            algos = ["ext_spfs", "base_spfs"] if ordered else ["superdtl", "base_uspfs"]
            case = suite.random_super_case(rng, algos[0], spec["max_obj"], spec["max_sp"], spec["max_fam"], cost=gen.tie_cost(rng, False), consistent_p=0.95, root_order_p=0.2, min_obj=2)
            case["kind"] = "c05"
            case["algos"] = algos
            check_case(ctx, case)
            if len(case["leafmap"]) >= 3:
                ctx.sample(case)
            if ctx.too_many():
                return


def replay(ctx, case):
    check_case(ctx, case)


def known(ctx, finding):
    wit = finding["witness"]
    case = dict(wit["case"], algos=wit["expect"]["algos"])
    got = []
    check_case(ctx, case, report=lambda mon, msg, **d: got.append((mon, msg, d)))
    exp = wit["expect"]
    matched = [g for g in got if g[0] in exp["monitors"] and g[2].get("algo") in exp["algos"]]
    other = [g for g in got if g not in matched]
    if matched:
        ctx.known.append(f"{finding['id']} {finding['text']}")
    else:
        ctx.notes.append(f"known finding {finding['id']} no longer reproduces")
    for mon, msg, d in other:
        ctx.viol(f"C05.{mon}", case, msg, **d)
