"""C10 The algorithms agree with each other where their models coincide."""
import math

from rv import bridge, gen, solvercheck as SC, suite
from rv.bridge import ALL, ANY
from rv.core import Inconclusive, skippable
from rv.refmodel import dtl

INF = math.inf
META = {
    "rule": (
        "Each evaluation is one run of one of the seven algorithms (ANY policy, cost recomputed by the reference evaluator) "
        "on one random binary input (up to 10 object leaves / 8 species / 4 families, coherent cost vector); the minima of "
        "all algorithms on the same input are compared: ext <= base (ordered and unordered), unordered <= ordered (when the "
        "ordered problem is feasible), thl <= lca and thl = lca when hgt = inf, exh = thl (<=5 leaves); when every leaf carries "
        "the same single family: ext_spfs = superdtl = thl and base_spfs = base_uspfs = lca cost. Non-trivial: >=4 object "
        "leaves and thl optimum > 0; distinct = (sizes, tuple of which inequalities are strict, single-family flag, hgt=inf)."
    ),
    "floors": {
        "quick": {"evaluations": 2000, "mon.relations": 2500, "single_family_cases": 60, "hgt_inf_cases": 30},
        "thorough": {"evaluations": 70000, "mon.relations": 80000, "single_family_cases": 2000, "hgt_inf_cases": 1000},
    },
    "exhaustive": {"quick": False, "thorough": False},
    "assumptions": ["minima are recomputed by the reference evaluator from the returned solutions (the package's cost() is not trusted)"],
    "timeout": {"quick": 420, "thorough": 7200},
}


def plan(tier, seed):
    q = tier == "quick"
    specs = [{"kind": "agree", "i": i, "count": 60 if q else 480} for i in range(32)]
    # volume for the relations between the plain solvers alone (thl <= lca, = when transfers are forbidden, exh = thl):
    # small inputs, finite transfer costs of every size against full-loss costs of every size
    specs += [{"kind": "plain", "i": i, "count": 600 if q else 5000} for i in range(16)]
    return specs


def min_of(algo, B):
    obs = SC.call(algo, B.inp, ANY)
    if obs.exc is not None:
        return None, obs.exc
    kind = SC.kind_of(algo)
    costs = [SC.model_cost(e, B.c, kind) for e in obs.ext]
    return (min(costs) if costs else INF), None


def relations(mins, single_family, hgt_inf, small):
    """-> list of (name, holds, text).  mins: dict algo -> value (None if not run)."""
    rel = []

    def add(name, a, op, b):
        x, y = mins.get(a), mins.get(b)
        if x is None or y is None:
            return
        ok = x <= y if op == "<=" else x == y
        rel.append((name, ok, f"{a}={x} {op} {b}={y}"))

    add("ext<=base (ordered)", "ext_spfs", "<=", "base_spfs")
    add("ext<=base (unordered)", "superdtl", "<=", "base_uspfs")
    if mins.get("ext_spfs") not in (None, INF):
        add("unordered<=ordered (ext)", "superdtl", "<=", "ext_spfs")
    if mins.get("base_spfs") not in (None, INF):
        add("unordered<=ordered (base)", "base_uspfs", "<=", "base_spfs")
    add("thl<=lca", "thl", "<=", "lca")
    if hgt_inf:
        add("thl=lca when hgt=inf", "thl", "==", "lca")
    if small:
        add("exh=thl", "exh", "==", "thl")
    if single_family:
        add("single family: ext_spfs=thl", "ext_spfs", "==", "thl")
        add("single family: superdtl=thl", "superdtl", "==", "thl")
        add("single family: base_spfs=lca", "base_spfs", "==", "lca")
        add("single family: base_uspfs=lca", "base_uspfs", "==", "lca")
    return rel


@skippable
def check_case(ctx, case, plain_only=False):
    single = case.get("single_family", False)
    B = bridge.Built(case)
    P = B.plain_input()
    mins = {}
    for algo in ("lca", "thl") + (("exh",) if len(B.G.leaves()) <= 5 else ()):
        mins[algo], exc = min_of(algo, P)
        ctx.count("evaluations")
        if exc:
            ctx.viol("C10.total", dict(case, algo=algo), f"{algo} raised: {exc}")
    for algo in () if plain_only else ("base_spfs", "ext_spfs", "base_uspfs", "superdtl"):
        mins[algo], exc = min_of(algo, B)
        ctx.count("evaluations")
        if exc:
            ctx.viol("C10.total", dict(case, algo=algo), f"{algo} raised: {exc}")
    hgt_inf = B.c["hgt"] == INF
    if hgt_inf:
        ctx.count("hgt_inf_cases")
    if single:
        ctx.count("single_family_cases")
    strict = []
    for name, ok, text in relations(mins, single, hgt_inf, "exh" in mins):
        ctx.count("mon.relations")
        if not ok:
            ctx.viol("C10.agree", case, f"relation '{name}' violated: {text}", minima={k: v for k, v in mins.items()})
        strict.append(text.split(" ")[1] if False else None)
    flags = (
        mins.get("ext_spfs") != mins.get("base_spfs"), mins.get("superdtl") != mins.get("base_uspfs"), mins.get("superdtl") != mins.get("ext_spfs"),
        mins.get("thl") != mins.get("lca"),
    )
    ctx.sig((len(B.G.leaves()), len(B.S.leaves()), flags, single, hgt_inf, mins.get("ext_spfs") == INF), len(B.G.leaves()) >= 4 and (mins.get("thl") or 0) > 0)
    if len(B.G.leaves()) >= 5:
        ctx.sample(dict(case, minima={k: v for k, v in mins.items()}))


def canaries(ctx):
    good = {"lca": 5, "thl": 4, "exh": 4, "base_spfs": 8, "ext_spfs": 7, "base_uspfs": 6, "superdtl": 6}
    ok = all(h for _, h, _ in relations(good, False, False, True))
    ok &= not all(h for _, h, _ in relations(dict(good, ext_spfs=9), False, False, True))
    ok &= not all(h for _, h, _ in relations(dict(good, superdtl=8), False, False, True))
    ok &= not all(h for _, h, _ in relations(dict(good, thl=6), False, False, True))
    ok &= not all(h for _, h, _ in relations(good, False, True, True))
    ok &= not all(h for _, h, _ in relations(dict(good, exh=3), False, False, True))
    ok &= not all(h for _, h, _ in relations(good, True, False, True))
    ok &= all(h for _, h, _ in relations({"lca": 5, "thl": 4, "exh": 4, "base_spfs": 5, "ext_spfs": 4, "base_uspfs": 5, "superdtl": 4}, True, False, True))
    ctx.count("canaries")
    if not ok:
        raise Inconclusive("C10 canary accepted")


def run(ctx, spec):
    if spec["kind"] == "plain":
        rng = ctx.rng("plain")
        for k in range(spec["count"]):
            Gn, Sn, lm = gen.random_input(rng, 5 if k % 3 else 7, 6, min_obj=3, min_sp=2)
            cost = gen.random_cost(rng, plain=True)
            if k % 2 and cost["hgt"] != "inf":
                # transfers priced between one and three full losses, losses not free
                cost = dict(cost, floss=rng.randint(1, 4))
                cost["hgt"] = rng.randint(cost["floss"], 3 * cost["floss"] + 1)
                if not dtl.coherent({k2: (INF if v == "inf" else v) for k2, v in cost.items()}):
                    cost["dup"] = cost["spe"] + 2 * cost["sloss"]
            case = {"kind": "agree", "G": Gn, "S": Sn, "leafmap": lm, "costs": cost, "syn": gen.shared_family_syntenies(list(lm)), "single_family": True, "plain_only": True}
            ctx.count("plain_cases")
            check_case(ctx, case, plain_only=True)
            if ctx.too_many():
                return
        return
    rng = ctx.rng("agree")
    for k in range(spec["count"]):
        small = k % 3 == 0
        single = k % 4 == 1
        Gn, Sn, lm = gen.random_input(rng, 5 if small else 10, 4 if small else 8, min_obj=2, min_sp=1)
        cost = gen.random_cost(rng)
        if k % 7 == 3:
            cost["hgt"] = "inf"
        if single:
            syn = gen.shared_family_syntenies(list(lm))
        elif k % 2 == 0 and not isinstance(Gn, str):
            syn = gen.clade_syntenies(rng, Gn, rng.randint(1, 4), ordered=True)
        else:
            syn = gen.random_syntenies(rng, list(lm), 4, ordered=True, consistent_p=0.95)
        # one synteny assignment serves both models: ordered lists for the ordered solvers, read as sets by the unordered ones
        case = {"kind": "agree", "G": Gn, "S": Sn, "leafmap": lm, "costs": cost, "syn": syn, "single_family": single}
        if k % 6 == 2:
            # deep labelled inputs: sparse families carried by 1-3 leaves anywhere, few species, 5-9 object leaves - chains
            # of several internal nodes that inherit, gain and lose families (the unordered optimum often equals the
            # ordered one there, so an over-estimate of either shows in the inequality)
            d = gen.deep_super_case(rng, ordered=True, min_obj=5, max_obj=8, max_fam=4, max_sp=5)
            case = {"kind": "agree", "G": d["G"], "S": d["S"], "leafmap": d["leafmap"], "costs": gen.tame(d["costs"], len(d["leafmap"])), "syn": d["syn"], "single_family": False}
            ctx.count("deep_cases")
        check_case(ctx, case)
        if ctx.too_many():
            return


def replay(ctx, case):
    check_case(ctx, {k: v for k, v in case.items() if k not in ("algo", "minima")}, plain_only=case.get("plain_only", False))
