"""C06 The cost evaluator implements the documented event model (solvers not involved)."""
import itertools
import math

from rv import bridge, cli, gen, solvercheck as SC
from rv.core import Inconclusive
from rv.refmodel import dtl, label

INF = math.inf
META = {
    "rule": (
        "Each evaluation is one real (Super)ReconciliationOutput CONSTRUCTED BY THE HARNESS from a model-enumerated valid "
        "species mapping (and a valid ordered or unordered labelling), on which node_event of every node, cost(), "
        "reconciliation_cost() and labeling_cost() are read and compared with an independent recount (R-EVENT, sequence-level "
        "run counting, set-level edge charging); cost vectors are arbitrary non-negative (no coherence restriction, infinite "
        "transfer cost included). Plus real `superrec2 reconcile` subprocess runs whose 'Minimum cost:' line is compared with "
        "the model cost of every solution line written. Non-trivial: >=2 object leaves and at least one duplication, "
        "transfer, full loss or segmental loss; distinct = (kind, sizes, event counts, #segmental losses, cost flags)."
    ),
    "floors": {
        "quick": {"evaluations": 10000, "mon.events": 10000, "mon.plain_cost": 2000, "mon.ordered_cost": 3000, "mon.unordered_cost": 3000, "mon.cli_min_cost": 6},
        "thorough": {"evaluations": 300000, "mon.events": 300000, "mon.plain_cost": 60000, "mon.ordered_cost": 60000, "mon.unordered_cost": 60000, "mon.cli_min_cost": 60},
    },
    "exhaustive": {"quick": True, "thorough": True},
    "space": {
        "quick": "every valid mapping of every input <=3x3; random inputs <=5x5 with 30 mappings x labellings each; costs 0..7 incl. inf",
        "thorough": "every valid mapping of every input <=4x3 (and <=3 object leaves x 4 species), every valid ordered/unordered labelling over 2 families on 3-leaf trees; random inputs <=5x5 / 4 families",
    },
    "assumptions": ["only valid (super-)reconciliations are evaluated, as the property states"],
    "timeout": {"quick": 420, "thorough": 7200},
}


def plan(tier, seed):
    q = tier == "quick"
    n = 12 if q else 32
    specs = [{"kind": "exh", "i": i, "n": n, "max_obj": 3 if q else 4, "max_sp": 3, "lab_exh": not q} for i in range(n)]
    specs += [{"kind": "rand", "i": i, "count": 220 if q else 500, "max_obj": 5, "max_sp": 5, "max_fam": 4} for i in range(12 if q else 16)]
    specs += [{"kind": "cli", "i": i, "count": 4 if q else 10} for i in range(7 if q else 14)]
    return specs


EV = {"LEAF": "LEAF", "SPE": "SPECIATION", "DUP": "DUPLICATION", "HGT": "HORIZONTAL_TRANSFER", "INV": "INVALID"}


def observe(B, m, lab=None, ordered=True):
    """Read the real evaluator on a harness-built output."""
    out = B.output(m, lab, ordered)
    events = {v: out.node_event(B.gnode[v]).name for v in B.G.nodes}
    res = {"events": events, "cost": bridge.num(out.cost())}
    if lab is not None:
        res["rec"] = bridge.num(out.reconciliation_cost())
        res["lab"] = bridge.num(out.labeling_cost())
    return res


def judge(B, m, lab, ordered, read):
    fails = []
    want_ev = dtl.rec_events(B.G, B.S, m)
    for v in B.G.nodes:
        if read["events"][v] != EV[want_ev[v]]:
            fails.append(("events", f"node {v}: node_event = {read['events'][v]}, model = {EV[want_ev[v]]}"))
    rc = dtl.rec_cost(B.G, B.S, m, B.c)
    if lab is None:
        if read["cost"] != rc:
            fails.append(("plain_cost", f"cost() = {read['cost']}, independent recount = {rc}"))
        return fails
    lc = label.ordered_label_cost(B.G, B.S, m, lab, B.c["sloss"]) if ordered else label.unordered_label_cost(B.G, B.S, m, lab, B.c["sloss"])
    mon = "ordered_cost" if ordered else "unordered_cost"
    if read["rec"] != rc:
        fails.append((mon, f"reconciliation_cost() = {read['rec']}, independent recount = {rc}"))
    if read["lab"] != lc:
        fails.append((mon, f"labeling_cost() = {read['lab']}, independent recount = {lc}"))
    if read["cost"] != rc + lc:
        fails.append((mon, f"cost() = {read['cost']}, independent recount = {rc + lc}"))
    return fails


def check_one(ctx, case, B, m, lab=None, ordered=True):
    full = dict(case, mapping={str(k): v for k, v in m.items()})
    if lab is not None:
        full["labelling"] = {str(k): sorted(v) if not ordered else list(v) for k, v in lab.items()}
        full["ordered"] = ordered
    try:
        read = observe(B, m, lab, ordered)
    except Exception as exc:  # noqa: BLE001
        ctx.viol("C06.total", full, f"evaluator raised on a valid reconciliation: {type(exc).__name__}: {exc}")
        return
    ctx.count("evaluations")
    ctx.count("mon.events")
    ctx.count("mon.plain_cost" if lab is None else ("mon.ordered_cost" if ordered else "mon.unordered_cost"))
    for mon, msg in judge(B, m, lab, ordered, read):
        ctx.viol(f"C06.{mon}", full, msg)
    n = dtl.event_counts(B.G, B.S, m)
    segl = 0
    if lab is not None and B.c["sloss"] not in (0, INF):
        lc = label.ordered_label_cost(B.G, B.S, m, lab, 1) if ordered else label.unordered_label_cost(B.G, B.S, m, lab, 1)
        segl = lc
    nontriv = len(B.G.leaves()) >= 2 and (n["DUP"] + n["HGT"] + n["LOSS"] + segl > 0)
    ctx.sig((("plain" if lab is None else ("ord" if ordered else "unord")), len(B.G.leaves()), len(B.S.leaves()), n["SPE"], n["DUP"], n["HGT"], min(n["LOSS"], 6), min(segl, 5),
             B.c["hgt"] == INF, B.c["floss"] == 0, B.c["sloss"] == 0), nontriv)
    if nontriv and len(B.G.leaves()) >= 3:
        ctx.sample(full)


def random_ordered_labelling(rng, B, root_order):
    G = B.G
    need = {}
    for v in reversed(G.nodes):
        need[v] = set(B.syn[v]) if not G.children[v] else set().union(*(need[c] for c in G.children[v]))
    lab = {}
    # how readily an ancestor keeps a family none of its leaves has: never (every loss as high as possible, long lost
    # blocks at inner nodes), half of the time, almost always (losses pushed down to the leaves)
    pk = rng.choice([0.5, 0.5, 0.0, 0.9])
    for v in G.nodes:
        if not G.children[v]:
            lab[v] = tuple(B.syn[v])
        elif v == G.root:
            lab[v] = tuple(root_order)
        else:
            par = set(lab[G.parent[v]])
            extra = [f for f in par - need[v] if rng.random() < pk]
            keep = need[v] | set(extra)
            lab[v] = tuple(f for f in root_order if f in keep)
    return lab


def block_syntenies(rng, Gn, syn, nf):
    """A whole clade lacks a block of 8 or more consecutive families of the common order, and part of that clade also
    lacks the two families flanking the block (one lost run for the child, across a gap its parent already has)."""

    def leaves(x):
        return [x] if isinstance(x, str) else [l for c in x for l in leaves(c)]

    def inner(x, out):
        if not isinstance(x, str):
            out.append(x)
            for c in x:
                inner(c, out)
        return out

    order = sorted({f for fs in syn.values() for f in fs}, key=lambda f: (len(f), f))
    if len(order) < 10:
        return syn
    nodes = inner(Gn, [])
    u = rng.choice(nodes[1:] or nodes)
    L = rng.randint(8, len(order) - 2)
    a = rng.randint(1, len(order) - L - 1)
    block = set(order[a:a + L])
    flanks = {order[a - 1], order[a + L]}
    w = rng.choice(list(u))
    out = {}
    for g, fs in syn.items():
        keep = [f for f in order if f in set(fs) or rng.random() < 0.7]
        if g in leaves(u):
            keep = [f for f in keep if f not in block]
            if g in leaves(w):
                keep = [f for f in keep if f not in flanks]
            elif rng.random() < 0.8:
                keep = [f for f in order if f in set(keep) | flanks]
        out[g] = keep or [order[0]]
    return out


def all_ordered_labellings(B, root_order):
    G = B.G
    need = {}
    for v in reversed(G.nodes):
        need[v] = frozenset(B.syn[v]) if not G.children[v] else frozenset().union(*(need[c] for c in G.children[v]))
    internal = [v for v in G.nodes if G.children[v] and v != G.root]

    def rec(i, lab):
        if i == len(internal):
            yield dict(lab)
            return
        v = internal[i]
        par = frozenset(lab[G.parent[v]])
        for keep in label._between(need[v], par):
            lab[v] = tuple(f for f in root_order if f in keep)
            yield from rec(i + 1, lab)
        lab.pop(v, None)

    base = {v: tuple(B.syn[v]) for v in G.leaves()}
    if G.children[G.root]:
        base[G.root] = tuple(root_order)
    yield from rec(0, base)


def random_unordered_labelling(rng, B):
    g, req, gains, allowed_top = label.unordered_frames(B.G, B.syn)
    lab = {}
    for v in B.G.nodes:
        if not B.G.children[v]:
            lab[v] = frozenset(B.syn[v])
        elif v == B.G.root:
            lab[v] = req[v]
        else:
            hi = (lab[B.G.parent[v]] | gains[v]) & allowed_top[v]
            extra = [f for f in hi - req[v] if rng.random() < 0.5]
            lab[v] = req[v] | frozenset(extra)
    return lab


def all_unordered_labellings(B):
    g, req, gains, allowed_top = label.unordered_frames(B.G, B.syn)
    internal = [v for v in B.G.nodes if B.G.children[v] and v != B.G.root]

    def rec(i, lab):
        if i == len(internal):
            yield dict(lab)
            return
        v = internal[i]
        hi = (lab[B.G.parent[v]] | gains[v]) & allowed_top[v]
        for P in label._between(req[v], hi):
            lab[v] = P
            yield from rec(i + 1, lab)
        lab.pop(v, None)

    base = {v: frozenset(B.syn[v]) for v in B.G.leaves()}
    if B.G.children[B.G.root]:
        base[B.G.root] = req[B.G.root]
    yield from rec(0, base)


def check_output_edit(ctx, rng, case, B, maps):
    """History: the species mapping of the SAME output object is edited in place into another valid reconciliation
    (the mapping is a plain dict), and the evaluator is read again: events and costs must follow."""
    if len(maps) < 2:
        return
    m1, m2 = rng.sample(maps, 2)
    out = B.output(m1)
    try:
        first = bridge.num(out.cost())
        [out.node_event(B.gnode[v]) for v in B.G.nodes]
        for v, s in m2.items():
            out.object_species[B.gnode[v]] = B.snode[s]
        events = {v: out.node_event(B.gnode[v]).name for v in B.G.nodes}
        cost2 = bridge.num(out.cost())
    except Exception as exc:  # noqa: BLE001
        ctx.viol("C06.total", dict(case, mapping={str(k): v for k, v in m2.items()}), f"evaluator raised after an in-place edit of the mapping: {type(exc).__name__}: {exc}")
        return
    ctx.count("evaluations")
    ctx.count("mon.after_mapping_edit")
    full = dict(case, mapping={str(k): v for k, v in m2.items()}, history=f"same output object, mapping edited in place from {sorted(m1.items())}")
    for mon, msg in judge(B, m2, None, True, {"events": events, "cost": cost2}):
        ctx.viol(f"C06.{mon}", full, msg + " (after an in-place edit of the mapping of the same output object)")


def check_default_costs(ctx, rng):
    """Inputs built WITHOUT an explicit cost table use the documented defaults (speciation 0, everything else 1) - also
    after the cost table of ANOTHER default-cost input was tuned in place (the tables must not be shared)."""
    from superrec2.model.reconciliation import NodeEvent, EdgeEvent

    Gn, Sn, lm = gen.random_input(rng, 5, 4, min_obj=2)
    first = bridge.Built({"kind": "eval", "G": Gn, "S": Sn, "leafmap": lm, "costs": None})
    first.inp.costs[NodeEvent.DUPLICATION] = rng.choice([3, 5])
    first.inp.costs[EdgeEvent.FULL_LOSS] = rng.choice([0, 2])
    Gn2, Sn2, lm2 = gen.random_input(rng, 5, 4, min_obj=2)
    syn = gen.random_syntenies(rng, list(lm2), 3, ordered=True, consistent_p=1.0)
    case = {"kind": "eval", "G": Gn2, "S": Sn2, "leafmap": lm2, "costs": None, "syn": syn, "history": "another default-cost input had its cost table tuned in place before"}
    B = bridge.Built(case)
    B.c = dict(gen.DEFAULT)  # the documented defaults are what the model uses
    got = bridge.costs_of(B.inp)
    ctx.count("mon.default_costs")
    ctx.count("evaluations")
    if got != {k: v for k, v in gen.DEFAULT.items()}:
        ctx.viol("C06.total", case, f"an input built without a cost table has costs {got}, the documented defaults are {gen.DEFAULT}")
        return
    for m in dtl.some_recs(B.G, B.S, B.leafmap, 6, rng):
        check_one(ctx, case, B, m)
        exts = label.linear_extensions([tuple(s) for s in syn.values()])
        check_one(ctx, case, B, m, random_ordered_labelling(rng, B, rng.choice(exts)), True)
        check_one(ctx, case, B, m, random_unordered_labelling(rng, B), False)


def canaries(ctx):
    case = {"G": [["g0", "g1"], "g2"], "S": [["A", "B"], "C"], "leafmap": {"g0": "A", "g1": "A", "g2": "C"}, "costs": dict(gen.DEFAULT),
            "syn": {"g0": ["f0", "f1", "f2"], "g1": ["f0", "f2"], "g2": ["f0", "f1", "f2"]}}
    B = bridge.Built(case)
    m = dtl.lca_mapping(B.G, B.S, B.leafmap)
    lab = {v: ("f0", "f1", "f2") for v in B.G.nodes}
    lab.update({v: tuple(B.syn[v]) for v in B.G.leaves()})
    read = observe(B, m, lab, True)
    ok = not judge(B, m, lab, True, read)
    ok &= dtl.rec_cost(B.G, B.S, m, B.c) == 2 and label.ordered_label_cost(B.G, B.S, m, lab, 1) == 1
    bad = dict(read, lab=read["lab"] + 1, cost=read["cost"] + 1)
    ok &= bool(judge(B, m, lab, True, bad))
    ev = dict(read["events"]); ev[B.G.root] = "DUPLICATION"
    ok &= bool(judge(B, m, lab, True, dict(read, events=ev)))
    p = observe(B, m)
    ok &= not judge(B, m, None, True, p) and bool(judge(B, m, None, True, dict(p, cost=p["cost"] - 1)))
    ctx.count("canaries")
    if not ok:
        raise Inconclusive("C06 canary accepted")


def run(ctx, spec):
    if spec["kind"] == "cli":
        return run_cli_part(ctx, spec)
    if spec["kind"] == "exh":
        rng = ctx.rng("exh")
        idx = 0
        for Gn, Sn, lm in gen.exhaustive_inputs(spec["max_obj"], spec["max_sp"]):
            idx += 1
            if idx % spec["n"] != spec["i"]:
                continue
            c = gen.random_cost(rng, coherent_only=False)
            case = {"kind": "eval", "G": Gn, "S": Sn, "leafmap": lm, "costs": c}
            B = bridge.Built(case)
            maps = list(dtl.all_recs(B.G, B.S, B.leafmap))
            for m in maps:
                check_one(ctx, case, B, m)
            # labelled: two families
            leaves = list(lm)
            if len(leaves) <= 3:
                syn_choices = list(gen.all_subset_syntenies(leaves, gen.families(2), ordered_variants=False))
                if not spec["lab_exh"]:
                    syn_choices = rng.sample(syn_choices, min(3, len(syn_choices)))
                for syn in syn_choices:
                    lcase = dict(case, syn=syn)
                    LB = bridge.Built(lcase)
                    sub = maps if spec["lab_exh"] and len(maps) <= 30 else rng.sample(maps, min(6, len(maps)))
                    for ro in label.linear_extensions([tuple(s) for s in syn.values()]):
                        for m in sub:
                            for lab in all_ordered_labellings(LB, ro):
                                check_one(ctx, lcase, LB, m, lab, True)
                    for m in sub:
                        for lab in all_unordered_labellings(LB):
                            check_one(ctx, lcase, LB, m, lab, False)
            if ctx.too_many():
                return
    else:
        rng = ctx.rng("rand")
        # large species trees (33-90 leaves: 65+ nodes, ancestry structures past their small-tree regime); mappings
        # drawn by the model's random generator (enumeration is out of reach), evaluator only
        from rv.refmodel import trees as RT

        for _ in range(max(2, spec["count"] // 25)):
            ns = rng.choice([33, 40, 64, 65, 90])
            no = rng.randint(4, 9)
            spl = [f"s{i}" for i in range(ns)]
            Sn = RT.random_tree_shape(rng, spl, kind=rng.choice(["rand", "bal", "rand"]))
            Gn = RT.random_tree_shape(rng, gen.object_labels(no))
            lm = {g: rng.choice(spl) for g in gen.object_labels(no)}
            syn3 = gen.random_syntenies(rng, list(lm), 3, ordered=True, consistent_p=1.0)
            case = {"kind": "eval", "G": Gn, "S": Sn, "leafmap": lm, "costs": gen.random_cost(rng, coherent_only=False), "syn": syn3}
            B = bridge.Built(case)
            exts = label.linear_extensions([tuple(s) for s in syn3.values()])
            ctx.count("big_species_cases")
            for _k in range(6):
                m = dtl.random_rec(rng, B.G, B.S, B.leafmap, high_p=rng.choice([0.1, 0.5, 0.9]))
                check_one(ctx, case, B, m)
                check_one(ctx, case, B, m, random_ordered_labelling(rng, B, rng.choice(exts)), True)
                check_one(ctx, case, B, m, random_unordered_labelling(rng, B), False)
        for _ in range(max(3, spec["count"] // 10)):
            check_default_costs(ctx, rng)
        for _ in range(spec["count"]):
            Gn, Sn, lm = gen.random_input(rng, spec["max_obj"], spec["max_sp"], min_obj=2)
            c = gen.random_cost(rng, coherent_only=False)
            wide = rng.random() < 0.25
            if wide:
                # long syntenies (10-20 families): lost runs spanning long stretches that an ancestor already lost,
                # masks wider than a byte / a machine word boundary; the evaluator alone is exercised
                nf = rng.choice([10, 12, 16, 20])
                ordered_syn = gen.random_syntenies(rng, list(lm), nf, ordered=True, consistent_p=1.0, min_fam=nf)
                if rng.random() < 0.5 and not isinstance(Gn, str):
                    ordered_syn = block_syntenies(rng, Gn, ordered_syn, nf)
                    ctx.count("block_loss_cases")
                ctx.count("wide_synteny_cases")
            else:
                ordered_syn = gen.random_syntenies(rng, list(lm), spec["max_fam"], ordered=True, consistent_p=1.0)
            case = {"kind": "eval", "G": Gn, "S": Sn, "leafmap": lm, "costs": c, "syn": ordered_syn}
            B = bridge.Built(case)
            maps = dtl.some_recs(B.G, B.S, B.leafmap, 3000, rng)
            if wide:
                exts = [label.one_extension([tuple(s) for s in ordered_syn.values()], rng) for _ in range(3)]
            else:
                exts = label.linear_extensions([tuple(s) for s in ordered_syn.values()])
            check_output_edit(ctx, rng, case, B, maps)
            for m in rng.sample(maps, min(30, len(maps))):
                check_one(ctx, case, B, m)
                for _ in range(2):
                    check_one(ctx, case, B, m, random_ordered_labelling(rng, B, rng.choice(exts)), True)
                    check_one(ctx, case, B, m, random_unordered_labelling(rng, B), False)
            if ctx.too_many():
                return


def run_cli_part(ctx, spec):
    """'Minimum cost:' of the real command-line tool equals the model cost of every line it wrote."""
    rng = ctx.rng("cli")
    algos = ["lca", "thl", "exh", "base_spfs", "ext_spfs", "base_uspfs", "superdtl"]
    for k in range(spec["count"]):
        algo = algos[(k + spec["i"] * 3) % len(algos)]
        Gn, Sn, lm = gen.random_input(rng, 4, 3, min_obj=2)
        c = gen.random_cost(rng, coherent_only=False)
        if algo == "lca":
            c["hgt"] = "inf"
        case = {"kind": "cli", "algo": algo, "G": Gn, "S": Sn, "leafmap": lm, "costs": c, "policy": rng.choice(["any", "all", "all"])}
        if SC.kind_of(algo) != "plain":
            case["syn"] = gen.random_syntenies(rng, list(lm), 3, ordered=SC.kind_of(algo) == "ordered", consistent_p=1.0)
        check_cli(ctx, case)


def check_cli(ctx, case):
    import json

    B = bridge.Built(case)
    data = {"object_tree": B.G.newick(), "species_tree": B.S.newick(), "leaf_object_species": case["leafmap"]}
    if case.get("syn"):
        data["leaf_syntenies"] = case["syn"]
    r = cli.reconcile(data, case["algo"], case["policy"], case["costs"])
    ctx.count("evaluations")
    if r["status"] not in (0, None) or r["min_cost_text"] is None:
        ctx.viol("C06.cli_min_cost", case, f"reconcile exited with status {r['status']} / no 'Minimum cost:' line; stderr: {r['stderr'][-300:]}")
        return
    printed = cli.parse_min_cost(r["min_cost_text"])
    lines = [l for l in r["text"].splitlines() if l.strip()]
    if not lines:
        ctx.viol("C06.cli_min_cost", case, "a minimum cost was printed but no solution was written")
    kind = SC.kind_of(case["algo"])
    for line in lines:
        sol = cli.read_solution(json.loads(line))
        e = {"G": sol["G"], "S": sol["S"], "m": sol["m"], "lab": sol["lab"], "problems": sol["problems"], "ordered": sol["ordered"]}
        x = SC.model_cost(e, B.c, kind)
        ctx.count("mon.cli_min_cost")
        if x != printed:
            ctx.viol("C06.cli_min_cost", case, f"printed 'Minimum cost: {r['min_cost_text']}' but the written solution costs {x} by independent recount ({'; '.join(sol['problems'][:2])})")
            break
    ctx.sig(("cli", case["algo"], case["policy"], len(lines) > 1, printed if printed == INF or printed <= 8 else 9), True)


def replay(ctx, case):
    if case["kind"] == "cli":
        return check_cli(ctx, case)
    if case.get("costs") is None:
        # default-cost history case: re-create the history (another default-cost input tuned in place) first
        from superrec2.model.reconciliation import NodeEvent, EdgeEvent

        first = bridge.Built({"kind": "eval", "G": ["g0", "g1"], "S": ["A", "B"], "leafmap": {"g0": "A", "g1": "B"}, "costs": None})
        first.inp.costs[NodeEvent.DUPLICATION] = 3
        first.inp.costs[EdgeEvent.FULL_LOSS] = 2
    B = bridge.Built({k: v for k, v in case.items() if k not in ("mapping", "labelling", "ordered")})
    if case.get("costs") is None:
        B.c = dict(gen.DEFAULT)
        got = bridge.costs_of(B.inp)
        if got != dict(gen.DEFAULT):
            ctx.viol("C06.total", case, f"an input built without a cost table has costs {got}, the documented defaults are {gen.DEFAULT}")
        if "mapping" not in case:
            return
    m = {int(k): v for k, v in case["mapping"].items()}
    lab = None
    if "labelling" in case:
        lab = {int(k): (tuple(v) if case["ordered"] else frozenset(v)) for k, v in case["labelling"].items()}
    check_one(ctx, case, B, m, lab, case.get("ordered", True))
