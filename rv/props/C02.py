"""C02 Ordered super-reconciliation is optimal (ext_spfs over all mappings, base_spfs over the LCA mapping)."""
import math

from rv import bridge, gen, solvercheck as SC
from rv.core import Inconclusive
from rv.props import _super as SU
from rv.refmodel import label

ALGOS = ["ext_spfs", "base_spfs"]
META = {
    "rule": (
        "Each evaluation is one call of sreconcile_extended_spfs / sreconcile_base_spfs (ALL or ANY) on an input with ordered "
        "leaf syntenies and a cost vector in the region spe + 2*sloss <= dup + 2*floss, judged by the joint-DP reference "
        "model R-ORD (all valid species mappings x all root orders compatible with the leaves, or the prescribed one, x all "
        "labellings; cross-checked against explicit enumeration on tiny inputs). Inconsistent leaf orders must give an empty "
        "result. Non-trivial: >=2 object leaves and (optimum > 0 or no solution); distinct = (algorithm, #object leaves, "
        "#species leaves, #families, event counts of an optimal mapping, optimum, cost-vector flags, prescribed root order)."
    ),
    "floors": {
        "quick": {"evaluations": 3000, "mon.optimal": 3000, "mon.table_cells": 20000, "mon.empty_expected": 20, "selfcheck.dp_vs_brute": 20},
        "thorough": {"evaluations": 50000, "mon.optimal": 50000, "mon.table_cells": 500000, "mon.empty_expected": 200, "selfcheck.dp_vs_brute": 200},
    },
    "exhaustive": {"quick": True, "thorough": True},
    "space": {
        "quick": "all inputs <=2 object leaves x <=2 species leaves x every ordered family-subset assignment over 2 families x 12 cost vectors; random inputs up to 4 object leaves / 4 species leaves / 4 families",
        "thorough": "all inputs <=3 object leaves x <=3 species leaves x every ordered family-subset assignment over 2 families x 10 cost vectors; random inputs up to 5 object leaves / 4 species leaves / 5 families, 25% with a prescribed root order, 10% inconsistent leaf orders",
    },
    "assumptions": ["R-ORD joint DP is the judge (self-checked against explicit enumeration)", "cost vectors restricted to the coherent region as quantified (F-COHERENCE outside)"],
    "timeout": {"quick": 420, "thorough": 7200},
}


def plan(tier, seed):
    if tier == "quick":
        specs = [{"kind": "exh", "i": i, "n": 8, "max_obj": 2, "max_sp": 2, "nfam": 2, "ncost": 12} for i in range(8)]
        specs += [{"kind": "rand", "i": i, "count": 60, "max_obj": 4, "max_sp": 4, "max_fam": 4, "consistent_p": 0.9} for i in range(16)]
        specs += [{"kind": "deep", "i": i, "count": 40, "max_obj": 6, "max_fam": 4} for i in range(16)]
        # big instances (8-11 object leaves, up to 6 species, up to 6 families): beyond any brute force, judged by the joint DP
        specs += [{"kind": "deep", "i": 200 + i, "count": 30, "min_obj": 8, "max_obj": 10, "max_fam": 5, "max_sp": 5, "_budget_s": 60} for i in range(8)]
        specs += [{"kind": "catsp", "i": 300 + i, "count": 25, "_budget_s": 60} for i in range(8)]
        # wide species trees (6-8 leaves, several levels): placements two or more levels below a donor, in another branch
        specs += [{"kind": "rand", "i": 100 + i, "count": 40, "max_obj": 4, "min_obj": 3, "max_sp": 8, "min_sp": 6, "max_fam": 2, "consistent_p": 1.0, "root_order_p": 0.1} for i in range(8)]
        specs += [{"kind": "rand", "i": 400 + i, "count": 80, "max_obj": 6, "min_obj": 4, "max_sp": 3, "min_sp": 2, "max_fam": 2, "consistent_p": 1.0, "root_order_p": 0.1, "cheap_hgt": True} for i in range(8)]
        return specs
    specs = [{"kind": "exh", "i": i, "n": 32, "max_obj": 3, "max_sp": 3, "nfam": 2, "ncost": 10} for i in range(32)]
    specs += [{"kind": "rand", "i": i, "count": 300, "max_obj": 5, "max_sp": 4, "max_fam": 5, "consistent_p": 0.9} for i in range(32)]
    specs += [{"kind": "deep", "i": i, "count": 250, "max_obj": 6, "max_fam": 4} for i in range(32)]
    specs += [{"kind": "catsp", "i": 300 + i, "count": 250, "_budget_s": 900} for i in range(16)]
    specs += [{"kind": "deep", "i": 200 + i, "count": 300, "min_obj": 8, "max_obj": 11, "max_fam": 5, "max_sp": 5, "_budget_s": 900} for i in range(16)]
    specs += [{"kind": "rand", "i": 100 + i, "count": 300, "max_obj": 4, "min_obj": 3, "max_sp": 9, "min_sp": 6, "max_fam": 2, "consistent_p": 1.0, "root_order_p": 0.1} for i in range(16)]
    specs += [{"kind": "rand", "i": 400 + i, "count": 500, "max_obj": 6, "min_obj": 4, "max_sp": 4, "min_sp": 2, "max_fam": 3, "consistent_p": 1.0, "root_order_p": 0.1, "cheap_hgt": True} for i in range(16)]
    return specs


def canaries(ctx):
    case = {"G": [["g0", "g1"], "g2"], "S": ["A", "B"], "leafmap": {"g0": "A", "g1": "A", "g2": "B"}, "costs": dict(gen.DEFAULT),
            "syn": {"g0": ["f0", "f1", "f2"], "g1": ["f0", "f2"], "g2": ["f0", "f1", "f2"]}}
    B = bridge.Built(case)
    mn, sols = label.ordered_solve(B.G, B.S, B.leafmap, B.c, B.syn, want_set=True)
    m, lab = sols[0]
    ok = mn == 2
    # a sub-optimal but valid labelling, an invalid labelling (child not a subsequence), an empty result
    inner = B.G.children[B.G.root][0]
    worse_m = dict(m)
    worse_m[inner] = B.S.root  # valid but needs extra losses
    o = SC.Obs(); o.outs = [B.output(worse_m, lab)]; o.ext = [bridge.extract(x) for x in o.outs]
    ok &= any(mon == "optimal" for mon, _, _ in SU.judge(B, "ext_spfs", o, mn))
    bad = dict(lab); bad[inner] = ("f2", "f0")
    o2 = SC.Obs(); o2.outs = [B.output(m, bad)]; o2.ext = [bridge.extract(x) for x in o2.outs]
    ok &= any(mon == "valid" for mon, _, _ in SU.judge(B, "ext_spfs", o2, mn))
    ok &= any(mon == "optimal" for mon, _, _ in SU.judge(B, "ext_spfs", SC.Obs(), mn))
    o3 = SC.Obs(); o3.outs = [B.output(m, lab)]; o3.ext = [bridge.extract(x) for x in o3.outs]
    ok &= any(mon == "empty" for mon, _, _ in SU.judge(B, "ext_spfs", o3, math.inf))
    ok &= not SU.judge(B, "ext_spfs", o3, mn)
    ctx.count("canaries")
    if not ok:
        raise Inconclusive("C02 canary accepted by the oracle")


def run(ctx, spec):
    SU.run_generic(ctx, "C02", "ordered", ALGOS, spec)


def replay(ctx, case):
    SU.replay_generic(ctx, "C02", "ordered", case)


def known(ctx, finding):
    SU.known_generic(ctx, "C02", "ordered", finding)
