"""C18 Subsequence masks and segment distances are exact."""
import itertools

from rv.core import Inconclusive
from rv.refmodel import label

META = {
    "rule": (
        "Each evaluation is one call of subseq_segment_dist / mask_from_subseq / subseq_from_mask / subseq_complete on the "
        "real code, judged by a bit-level definition (runs of parent bits absent from a non-empty child) cross-checked "
        "against the sequence-level run counter of R-ORD; exhaustive over (child, parent) mask pairs and both end modes, "
        "all sequences of distinct elements and all their subsequences; plus the calls the ordered solver and the cost "
        "evaluator really make (in situ). Non-trivial: parent with >=2 bits; distinct = (child, parent, edges) or "
        "(sequence length, mask)."
    ),
    "floors": {
        "quick": {"evaluations": 1000000, "mon.dist": 1000000, "mon.mask_roundtrip": 5000, "mon.insitu_dist": 2000},
        "thorough": {"evaluations": 2000000, "mon.dist": 2000000, "mon.mask_roundtrip": 50000, "mon.insitu_dist": 10000},
    },
    "exhaustive": {"quick": True, "thorough": True},
    "space": {"quick": "all non-empty child masks x parent masks up to 10 bits x both end modes; all sequences up to length 8 (all orders up to length 5) and all subsequences", "thorough": "all mask pairs up to 11 bits x both modes (8.4M); all sequences up to length 9 (distinct elements, 3 alphabets) and all subsequences"},
    "assumptions": ["the empty child mask is excluded, as the property states"],
    "timeout": {"quick": 420, "thorough": 3600},
}


def plan(tier, seed):
    q = tier == "quick"
    n = 16
    specs = [{"kind": "dist", "i": i, "n": n, "bits": 10 if q else 11} for i in range(n)]
    specs += [{"kind": "masks", "i": i, "n": 4, "maxlen": 8 if q else 9} for i in range(4)]
    specs += [{"kind": "insitu", "i": i, "count": 12 if q else 60} for i in range(4)]
    return specs


def model_dist(child, parent, edges):
    """Bit-level definition."""
    if child & ~parent:
        return -1
    bits = parent.bit_length()
    pos = [i for i in range(bits) if parent >> i & 1]  # positions of parent elements
    flags = [bool(child >> i & 1) for i in pos]
    runs = []
    i = 0
    n = len(flags)
    while i < n:
        if not flags[i]:
            j = i
            while j < n and not flags[j]:
                j += 1
            runs.append((i, j))
            i = j
        else:
            i += 1
    if edges:
        return len(runs)
    return sum(1 for a, b in runs if a != 0 and b != n)


def check_dist(ctx, fn, child, parent, edges, monitor="C18.dist", case_extra=None):
    want = model_dist(child, parent, edges)
    case = {"kind": "dist", "child": child, "parent": parent, "edges": edges}
    if case_extra:
        case = dict(case_extra, **case)
    try:
        got = fn(child, parent, edges)
    except Exception as exc:  # noqa: BLE001
        ctx.viol(monitor, case, f"raised {type(exc).__name__}: {exc}")
        return
    if got != want:
        ctx.viol(monitor, case, f"subseq_segment_dist({child:#b}, {parent:#b}, edges={edges}) = {got}, definition gives {want}")


def canaries(ctx):
    ok = model_dist(0b101, 0b111, True) == 1 and model_dist(0b001, 0b111, True) == 1 and model_dist(0b001, 0b111, False) == 0
    ok &= model_dist(0b010, 0b111, True) == 2 and model_dist(0b1000, 0b0111, True) == -1 and model_dist(0b1001, 0b1111, False) == 1
    # second formulation: sequence-level counter
    seq = tuple("abcdefg")
    for child in range(1, 128):
        for parent in range(128):
            P = tuple(seq[i] for i in range(7) if parent >> i & 1)
            C = tuple(seq[i] for i in range(7) if child >> i & 1)
            for e in (True, False):
                ok &= model_dist(child, parent, e) == label.seg_runs(C, P, e)
    ctx.count("canaries")
    ctx.count("selfcheck.bit_vs_seq", 127 * 128 * 2)
    if not ok:
        raise Inconclusive("C18 reference model self-check failed")


def run(ctx, spec):
    import superrec2.utils.subsequences as SUB

    if spec["kind"] == "dist":
        bits = spec["bits"]
        cnt = 0
        for child in range(1, 1 << bits):
            if child % spec["n"] != spec["i"]:
                continue
            for parent in range(0, 1 << bits):
                for edges in (True, False):
                    check_dist(ctx, SUB.subseq_segment_dist, child, parent, edges)
                    cnt += 1
                if parent.bit_length() >= 2 and (child * 131 + parent) % 257 == 0:
                    ctx.sig((child, parent))
            if ctx.too_many():
                break
        # wide masks (12-70 positions) with long stretches of absent positions: byte/word boundaries, long gaps inside
        # and outside the parent, runs spanning them
        rng = ctx.rng("wide")
        nw = 0
        for _ in range(3000 if ctx.tier == "quick" else 40000):
            bits = rng.choice([12, 16, 17, 24, 31, 32, 33, 40, 63, 64, 65, 70, 128, 129, 130, 192, 200, 257, 300])
            parent = 0
            pos = 0
            while pos < bits:
                ln = rng.choice([1, 1, 2, 3, 5, 8, 9, 16] if bits <= 70 else [1, 1, 2, 7, 16, 33, 63, 64, 65, 100])
                if rng.random() < 0.5:
                    parent |= ((1 << ln) - 1) << pos
                pos += ln
            parent &= (1 << bits) - 1
            child = 0
            pos = 0
            while pos < bits:
                ln = rng.choice([1, 1, 2, 3, 8, 11])
                if rng.random() < 0.5:
                    child |= ((1 << ln) - 1) << pos
                pos += ln
            child &= parent if rng.random() < 0.9 else (1 << bits) - 1
            if bits > 70 and rng.random() < 0.5:
                # machine-word boundaries: an element kept (or lost) exactly at position 63 / 127 / 191 and at 64 / 128 / 192
                for edge in (63, 64, 127, 128, 191, 192):
                    if edge < bits and rng.random() < 0.5:
                        parent |= 1 << edge
                        if rng.random() < 0.6:
                            child |= 1 << edge
                        else:
                            child &= ~(1 << edge)
            if child == 0:
                continue
            for edges in (True, False):
                check_dist(ctx, SUB.subseq_segment_dist, child, parent, edges)
                cnt += 1
                nw += 1
        # very sparse parents over 300-900 positions (gaps of 256+), children that are contained except for ONE stray
        # element somewhere (most often inside a long gap)
        for _ in range(400 if ctx.tier == "quick" else 6000):
            bits = rng.choice([300, 520, 600, 900])
            parent = 0
            for _k in range(rng.randint(1, 5)):
                parent |= 1 << rng.randrange(bits)
            if rng.random() < 0.5:
                parent |= 1  # an element at the very start, then nothing for a long stretch
            child = parent & rng.getrandbits(bits)
            if rng.random() < 0.6:
                child |= 1 << rng.randrange(bits)  # stray element: almost surely not in the parent
            if child == 0:
                continue
            for edges in (True, False):
                check_dist(ctx, SUB.subseq_segment_dist, child, parent, edges)
                cnt += 1
                nw += 1
        ctx.count("mon.dist_wide", nw)
        ctx.count("evaluations", cnt)
        ctx.count("mon.dist", cnt)
        ctx.sample({"kind": "dist", "child": 0b1001, "parent": 0b11111, "edges": False})
    elif spec["kind"] == "masks":
        alphabets = [list("abcdefghi"), [f"f{i}" for i in range(9)], list(range(9))]
        cnt = 0
        for L in range(0, spec["maxlen"] + 1):
            for ai, alpha in enumerate(alphabets):
                perms = [tuple(alpha[:L])] + ([tuple(reversed(alpha[:L]))] if L > 1 else [])
                if L <= 5:
                    perms = list(itertools.permutations(alpha[:L]))
                else:
                    prng = ctx.rng("perms", L, ai)
                    for _ in range(2 if ctx.tier == "quick" else 12):
                        q = list(alpha[:L])
                        prng.shuffle(q)
                        perms.append(tuple(q))
                for pi, parent in enumerate(perms):
                    if (pi + ai) % spec["n"] != spec["i"]:
                        continue
                    try:
                        if SUB.subseq_complete(parent) != (1 << L) - 1:
                            ctx.viol("C18.masks", {"kind": "complete", "parent": list(parent)}, "subseq_complete is not the full mask")
                        for mask in range(1 << L):
                            sub = [parent[i] for i in range(L) if mask >> i & 1]
                            if ai == 1:
                                sub = [str(x[:1]) + str(x[1:]) for x in sub]  # equal but not identical strings
                            elif ai == 2 and mask % 2:
                                sub = [float(x) for x in sub]  # 1 == 1.0
                            got_mask = SUB.mask_from_subseq(sub, parent)
                            got_sub = list(SUB.subseq_from_mask(mask, parent))
                            cnt += 2
                            case = {"kind": "mask", "parent": list(parent), "mask": mask}
                            if got_mask != mask:
                                ctx.viol("C18.masks", case, f"mask_from_subseq({sub}, {list(parent)}) = {got_mask:#b}, expected {mask:#b}")
                            if got_sub != sub:
                                ctx.viol("C18.masks", case, f"subseq_from_mask({mask:#b}, {list(parent)}) = {got_sub}, expected {sub}")
                            if got_mask == mask and list(SUB.subseq_from_mask(got_mask, parent)) != sub:
                                ctx.viol("C18.masks", case, "round trip subsequence -> mask -> subsequence is not the identity")
                            if L >= 2:
                                ctx.sig(("mask", L, mask, ai if L > 5 else pi % 7))
                    except Exception as exc:  # noqa: BLE001
                        ctx.viol("C18.masks", {"kind": "mask", "parent": list(parent)}, f"raised {type(exc).__name__}: {exc}")
                    if ctx.too_many():
                        return
        # long sequences (40-300 elements) with sparse subsequences: gaps of 48+ absent positions, word boundaries
        lrng = ctx.rng("longmasks")
        nlong = 0
        for _ in range(300 if ctx.tier == "quick" else 4000):
            L = lrng.choice([40, 49, 50, 60, 64, 65, 100, 129, 200, 300])
            parent = [f"g{i}" for i in range(L)] if lrng.random() < 0.7 else list(range(L))
            lrng.shuffle(parent)
            style = lrng.random()
            if style < 0.4:
                idx = sorted(lrng.sample(range(L), lrng.randint(1, 4)))  # very sparse: long gaps
            elif style < 0.6:
                idx = sorted({0, L - 1} | set(lrng.sample(range(L), lrng.randint(0, 2))))
            elif style < 0.8:
                k = lrng.randrange(L)
                idx = list(range(k, min(L, k + lrng.randint(1, 5))))  # one block, everything else absent
            else:
                idx = [i for i in range(L) if lrng.random() < 0.5]
            mask = sum(1 << i for i in idx)
            sub = [parent[i] for i in idx]
            case = {"kind": "mask", "parent": list(parent), "mask": mask}
            try:
                got_mask = SUB.mask_from_subseq(sub, parent)
                got_sub = list(SUB.subseq_from_mask(mask, parent))
            except Exception as exc:  # noqa: BLE001
                ctx.viol("C18.masks", case, f"raised {type(exc).__name__}: {exc} (sequence of {L} elements, positions {idx[:6]}...)")
                continue
            cnt += 2
            nlong += 1
            if got_mask != mask:
                ctx.viol("C18.masks", case, f"mask_from_subseq on a sequence of {L} elements, positions {idx[:8]}: got mask {got_mask:#x}, expected {mask:#x}")
            if got_sub != sub:
                ctx.viol("C18.masks", case, f"subseq_from_mask on a sequence of {L} elements, positions {idx[:8]}: got {got_sub[:8]}, expected {sub[:8]}")
        # history: the SAME list object is used as the sequence, edited in place (reversed, shuffled, an element replaced;
        # same length), and used again - every answer must be exact for the sequence as it is at that moment
        hrng = ctx.rng("inplace")
        nhist = 0
        for _ in range(200 if ctx.tier == "quick" else 3000):
            L = hrng.randint(2, 9)
            parent = [f"g{i}" for i in range(L)] if hrng.random() < 0.6 else list(range(L))
            hrng.shuffle(parent)
            edits = []
            for step in range(3):
                idx = sorted(hrng.sample(range(L), hrng.randint(1, L)))
                sub = [parent[i] for i in idx]
                mask = sum(1 << i for i in idx)
                case = {"kind": "mask", "parent": list(parent), "mask": mask, "history": "same list object used before, then edited in place", "edits": list(edits)}
                try:
                    got_mask = SUB.mask_from_subseq(sub, parent)
                    got_sub = list(SUB.subseq_from_mask(mask, parent))
                    comp = SUB.subseq_complete(parent)
                except Exception as exc:  # noqa: BLE001
                    ctx.viol("C18.masks", case, f"raised {type(exc).__name__}: {exc}")
                    break
                cnt += 2
                nhist += 1
                if got_mask != mask or got_sub != sub or comp != (1 << L) - 1:
                    ctx.viol("C18.masks", case, f"after in-place edits {edits} of the sequence object: mask_from_subseq({sub}, {parent}) = {got_mask:#b} (expected {mask:#b}), subseq_from_mask gives {got_sub}")
                    break
                kind = hrng.choice(["reverse", "shuffle", "replace", "swap"])
                if kind == "reverse":
                    parent.reverse()
                elif kind == "shuffle":
                    hrng.shuffle(parent)
                elif kind == "replace":
                    parent[hrng.randrange(L)] = f"new{step}" if isinstance(parent[0], str) else 100 + step
                else:
                    i, j = hrng.randrange(L), hrng.randrange(L)
                    parent[i], parent[j] = parent[j], parent[i]
                edits.append(kind)
        ctx.count("mon.inplace_sequences", nhist)
        ctx.count("mon.long_sequences", nlong)
        ctx.count("evaluations", cnt)
        ctx.count("mon.mask_roundtrip", cnt)
        ctx.sample({"kind": "mask", "parent": list("abcd"), "mask": 0b1010})
    else:
        insitu(ctx, spec)


class InSituDist:
    """L1: contract on the calls of subseq_segment_dist made by the ordered solver and the evaluator."""

    def __init__(self, ctx, case):
        import superrec2.compute.super_reconciliation as SR
        import superrec2.model.reconciliation as MR
        import superrec2.utils.subsequences as SUB

        self.mods = [m for m in (SUB, SR, MR) if hasattr(m, "subseq_segment_dist")]
        self.saved = [(m, m.subseq_segment_dist) for m in self.mods]
        self.n = 0
        orig = SUB.subseq_segment_dist
        mon = self

        def wrapper(*a, **k):
            res = orig(*a, **k)
            try:
                child, parent = a[0], a[1]
                edges = a[2] if len(a) > 2 else k.get("edges", True)
                if len(a) + len(k) == 3 and isinstance(child, int) and isinstance(parent, int) and child != 0:
                    mon.n += 1
                    want = model_dist(child, parent, edges)
                    if res != want:
                        ctx.viol("C18.insitu", dict(case, child=child, parent=parent, edges=edges), f"in-situ subseq_segment_dist({child:#b}, {parent:#b}, {edges}) = {res}, definition gives {want}")
            except (IndexError, TypeError, KeyError):
                pass  # called in a way the contract does not know: not observed
            return res

        for m in self.mods:
            m.subseq_segment_dist = wrapper

    def detach(self):
        for m, f in self.saved:
            m.subseq_segment_dist = f


def insitu_case(ctx, case):
    from rv import bridge, solvercheck as SC

    B = bridge.Built(case)
    mon = InSituDist(ctx, case)
    try:
        obs = SC.call(case["algo"], B.inp, bridge.ALL)
        for out in obs.outs[:30]:
            out.cost()
    finally:
        mon.detach()
    ctx.count("evaluations", mon.n)
    ctx.count("mon.insitu_dist", mon.n)
    ctx.sig(("insitu", case["algo"], len(B.G.leaves()), max(len(s) for s in case["syn"].values())), mon.n > 0)
    if len(mon.mods) < 3:
        ctx.notes.append("in-situ contract attached to fewer modules than expected")


def insitu(ctx, spec):
    from rv import gen

    rng = ctx.rng("insitu")
    for k in range(spec["count"]):
        algo = ["ext_spfs", "base_spfs"][k % 2]
        Gn, Sn, lm = gen.random_input(rng, 5, 4, min_obj=2)
        case = {"kind": "insitu", "algo": algo, "G": Gn, "S": Sn, "leafmap": lm, "costs": gen.random_cost(rng),
                "syn": gen.random_syntenies(rng, list(lm), 4, ordered=True, consistent_p=1.0)}
        insitu_case(ctx, case)


def replay(ctx, case):
    import superrec2.utils.subsequences as SUB

    if case["kind"] == "dist":
        check_dist(ctx, SUB.subseq_segment_dist, case["child"], case["parent"], case["edges"])
    elif case["kind"] == "insitu":
        insitu_case(ctx, case)
    else:
        parent = case["parent"]
        L = len(parent)
        for mask in range(1 << L):
            sub = [parent[i] for i in range(L) if mask >> i & 1]
            if SUB.mask_from_subseq(sub, parent) != mask or list(SUB.subseq_from_mask(mask, parent)) != sub:
                ctx.viol("C18.masks", case, f"mask round trip fails for mask {mask:#b}")
