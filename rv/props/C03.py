"""C03 Unordered super-reconciliation (SuperDTL) is optimal; base variant over the LCA mapping."""
import math

from rv import bridge, gen, solvercheck as SC
from rv.core import Inconclusive
from rv.props import _super as SU
from rv.refmodel import label

ALGOS = ["superdtl", "base_uspfs"]
META = {
    "rule": (
        "Each evaluation is one call of usreconcile_extended_uspfs / usreconcile_base_uspfs (ALL or ANY) on an input with "
        "unordered leaf syntenies and a cost vector in the region spe + 2*sloss <= dup + 2*floss, judged by the joint-DP "
        "reference model R-UNORD minimising over every valid species mapping and EVERY family-set labelling between the "
        "required and the allowed content (not only the two canonical choices the solver searches). Hooks: gain sets / "
        "required-content sets against the model, LCA-kind table cells, mutation sanitizer on the shared sets across "
        "decoding. Non-trivial: >=2 object leaves and optimum > 0; distinct = (algorithm, sizes, #families, event counts of "
        "an optimal mapping, optimum, cost-vector flags)."
    ),
    "floors": {
        "quick": {"evaluations": 3000, "mon.optimal": 3000, "mon.table_cells": 10000, "mon.sets": 3000, "selfcheck.dp_vs_brute": 20, "deep_cases": 500},
        "thorough": {"evaluations": 50000, "mon.optimal": 50000, "mon.table_cells": 300000, "mon.sets": 50000, "selfcheck.dp_vs_brute": 200},
    },
    "exhaustive": {"quick": True, "thorough": True},
    "space": {
        "quick": "all inputs <=3 object leaves x <=2 species leaves x every family-subset assignment over 2 families x 8 cost vectors; random inputs up to 5 object leaves / 4 species leaves / 4 families",
        "thorough": "all inputs <=4 object leaves x <=3 species leaves x every family-subset assignment over 2 families x 6 cost vectors; random inputs up to 7 object leaves / 4 species leaves / 5 families",
    },
    "assumptions": ["R-UNORD joint DP over all labellings is the judge (self-checked against explicit enumeration)", "cost vectors restricted to the coherent region as quantified (F-COHERENCE outside)"],
    "timeout": {"quick": 420, "thorough": 7200},
}


def plan(tier, seed):
    if tier == "quick":
        specs = [{"kind": "exh", "i": i, "n": 8, "max_obj": 3, "max_sp": 2, "nfam": 2, "ncost": 8} for i in range(8)]
        specs += [{"kind": "rand", "i": i, "count": 80, "max_obj": 5, "max_sp": 4, "max_fam": 4} for i in range(16)]
        specs += [{"kind": "deep", "i": i, "count": 150} for i in range(16)]
        specs += [{"kind": "rand", "i": 100 + i, "count": 40, "max_obj": 4, "min_obj": 3, "max_sp": 8, "min_sp": 6, "max_fam": 3} for i in range(8)]
        specs += [{"kind": "rand", "i": 400 + i, "count": 120, "max_obj": 7, "min_obj": 5, "max_sp": 3, "min_sp": 2, "max_fam": 2, "cheap_hgt": True} for i in range(8)]
        specs += [{"kind": "catsp", "i": 300 + i, "count": 40, "_budget_s": 60} for i in range(8)]
        specs += [{"kind": "deep", "i": 200 + i, "count": 60, "min_obj": 8, "max_obj": 12, "max_fam": 6, "max_sp": 6, "_budget_s": 60} for i in range(8)]
        return specs
    specs = [{"kind": "exh", "i": i, "n": 32, "max_obj": 4, "max_sp": 3, "nfam": 2, "ncost": 6} for i in range(32)]
    specs += [{"kind": "rand", "i": i, "count": 350, "max_obj": 7, "max_sp": 4, "max_fam": 5, "min_obj": 3} for i in range(32)]
    specs += [{"kind": "deep", "i": i, "count": 1500} for i in range(32)]
    specs += [{"kind": "rand", "i": 100 + i, "count": 300, "max_obj": 4, "min_obj": 3, "max_sp": 9, "min_sp": 6, "max_fam": 3} for i in range(16)]
    specs += [{"kind": "rand", "i": 400 + i, "count": 700, "max_obj": 7, "min_obj": 5, "max_sp": 4, "min_sp": 2, "max_fam": 3, "cheap_hgt": True} for i in range(16)]
    specs += [{"kind": "catsp", "i": 300 + i, "count": 400, "_budget_s": 900} for i in range(16)]
    specs += [{"kind": "deep", "i": 200 + i, "count": 400, "min_obj": 8, "max_obj": 13, "max_fam": 6, "max_sp": 6, "_budget_s": 900} for i in range(16)]
    return specs


def canaries(ctx):
    case = {"G": [["g0", "g1"], "g2"], "S": ["A", "B"], "leafmap": {"g0": "A", "g1": "A", "g2": "B"}, "costs": dict(gen.DEFAULT),
            "syn": {"g0": ["f0", "f1"], "g1": ["f0"], "g2": ["f0", "f1"]}}
    B = bridge.Built(case)
    mn, sols = label.unordered_solve(B.G, B.S, B.leafmap, B.c, B.syn, want_set=True)
    m, lab = sols[0]
    inner = B.G.children[B.G.root][0]
    ok = mn == 1
    worse_m = dict(m); worse_m[inner] = B.S.root
    o = SC.Obs(); o.outs = [B.output(worse_m, lab, ordered=False)]; o.ext = [bridge.extract(x) for x in o.outs]
    ok &= any(mon == "optimal" for mon, _, _ in SU.judge(B, "superdtl", o, mn))
    bad = dict(lab); bad[inner] = frozenset(["f1"])  # f0 below a node that lacks it
    o2 = SC.Obs(); o2.outs = [B.output(m, bad, ordered=False)]; o2.ext = [bridge.extract(x) for x in o2.outs]
    ok &= any(mon == "valid" for mon, _, _ in SU.judge(B, "superdtl", o2, mn))
    ok &= any(mon == "optimal" for mon, _, _ in SU.judge(B, "superdtl", SC.Obs(), mn))
    o3 = SC.Obs(); o3.outs = [B.output(m, lab, ordered=False)]; o3.ext = [bridge.extract(x) for x in o3.outs]
    ok &= not SU.judge(B, "superdtl", o3, mn)
    ctx.count("canaries")
    if not ok:
        raise Inconclusive("C03 canary accepted by the oracle")


def run(ctx, spec):
    SU.run_generic(ctx, "C03", "unordered", ALGOS, spec)


def replay(ctx, case):
    SU.replay_generic(ctx, "C03", "unordered", case)


def known(ctx, finding):
    SU.known_generic(ctx, "C03", "unordered", finding)
