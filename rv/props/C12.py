"""C12 The command-line tool names nodes, reports the true cost, writes readable output."""
import contextlib
import io
import json
import math
import os
import sys
import tempfile

from rv import bridge, cli, gen, render_stub, solvercheck as SC
from rv.core import Inconclusive
from rv.refmodel import dtl, newick, tikz
from rv.refmodel.trees import T

INF = math.inf
ALGOS = ["lca", "thl", "exh", "base_spfs", "ext_spfs", "base_uspfs", "superdtl"]
META = {
    "rule": (
        "Each evaluation is one run of the command-line tool: REAL `python -m superrec2.cli reconcile ...` subprocesses "
        "(argument parsing, files, exit status) and, for volume, the same entry point run() driven in-process with patched "
        "argv; each emitted line is then fed to `draw` (in-process, stub TeX measurer). Oracle on harness-parsed output: one "
        "JSON object per line; every node of both written trees has a distinct non-empty name (not NoName); unnamed "
        "ancestors are exactly O#/S# in pre-order skipping names already present and given names are untouched (model of the "
        "documented renaming); each line parses back through (Super)ReconciliationOutput.from_dict to a valid solution whose "
        "model cost equals the printed 'Minimum cost:'; `all` is a superset of `any`; draw exits 0 with well-formed TikZ; a "
        "super-reconciliation algorithm without syntenies exits 1 and writes nothing. Non-trivial: >=3 object leaves and "
        ">=1 unnamed ancestor; distinct = (algorithm, policy, naming style, sizes, syntenies?, leaf mapping given?, mode)."
    ),
    "floors": {
        "quick": {"evaluations": 500, "mon.real_subprocess": 30, "mon.naming": 300, "mon.readback": 300, "mon.draw": 300, "mon.all_superset_any": 100, "mon.missing_syntenies": 20},
        "thorough": {"evaluations": 15000, "mon.real_subprocess": 600, "mon.naming": 9000, "mon.readback": 9000, "mon.draw": 9000, "mon.all_superset_any": 3000, "mon.missing_syntenies": 500},
    },
    "exhaustive": {"quick": False, "thorough": False},
    "assumptions": ["no TeX engine: draw is driven with a stub measurer, `draw ... pdf` cannot be executed", "exact O#/S# numbering is required for binary inputs; for multifurcating inputs only distinct, non-empty names with given names untouched"],
    "timeout": {"quick": 420, "thorough": 7200},
}


def plan(tier, seed):
    q = tier == "quick"
    specs = [{"kind": "inproc", "i": i, "count": 24 if q else 500} for i in range(12 if q else 30)]
    specs += [{"kind": "real", "i": i, "count": 5 if q else 40} for i in range(8 if q else 16)]
    # volume for the clauses that need many solver runs rather than many drawings: printed minimum = cost of every written
    # solution, `all` contains `any` - larger inputs, the four super-reconciliation algorithms and thl, no drawing
    specs += [{"kind": "pairs", "i": i, "count": 300 if q else 1200} for i in range(12 if q else 30)]
    return specs


# ---------------------------------------------------------------- generators
def random_doc_input(rng, algo, max_obj=5, max_sp=4, min_obj=1, max_fam=3):
    """A random input file in the documented format."""
    ns = rng.randint(1, max_sp)
    no = rng.randint(min_obj, max_obj)
    style = rng.choice(["unnamed", "named", "partial", "lookalike"])
    sp_names = rng.sample(["X", "Y", "Zed", "alpha", "B2", "hs", "Mm", "C"], ns)
    if ns >= 2 and rng.random() < 0.15:
        # a species name with an underscore, and sometimes one that extends another species name (`X` and `X_b`): the
        # documented rule (first matching prefix) then decides, and leaves of `X_b` need an explicit assignment
        sp_names[0] = rng.choice(["H_sap", "M_mus", sp_names[1] + "_b"])
    from rv.refmodel import trees as RT

    S = RT.random_tree_shape(rng, sp_names)
    leaves = []
    leafmap = {}
    for i in range(no):
        sp = rng.choice(sp_names)
        prefix = sp if rng.random() < 0.8 else rng.choice([sp.lower(), sp.upper()])
        nm = f"{prefix}_{i + 1}"
        leaves.append(nm)
        leafmap[nm] = sp
    G = RT.random_tree_shape(rng, leaves)
    if algo in ("ext_spfs", "superdtl") and rng.random() < 0.2 and no >= 3:
        # multifurcating input for the extended solvers (names: distinct, non-empty, given ones untouched)
        G = RT.random_multifurcating(rng, leaves, max_poly=1, max_arity=3)
        if ns >= 3 and rng.random() < 0.5:
            S = RT.random_multifurcating(rng, sp_names, max_poly=1, max_arity=3)

    def name_internal(nested, prefix, existing):
        counter = [0]

        def go(x, is_root):
            if isinstance(x, str):
                return x
            d = {"ch": [go(c, False) for c in x]}
            r = rng.random()
            if style == "named" or (style in ("partial", "lookalike") and r < 0.45):
                if style == "lookalike":
                    # names shaped like generated ones, of this tree's prefix or of the OTHER tree's prefix
                    nm = f"{prefix if rng.random() < 0.6 else ('S' if prefix == 'O' else 'O')}{rng.randint(0, 4)}"
                else:
                    nm = f"{'anc' if prefix == 'O' else 'clade'}{counter[0]}"
                counter[0] += 1
                if nm not in existing:
                    existing.add(nm)
                    d["name"] = nm
            return d

        return go(nested, True)

    Gd = name_internal(G, "O", set(leaves))
    Sd = name_internal(S, "S", set(sp_names))
    data = {"object_tree": T(Gd).newick(), "species_tree": T(Sd).newick()}
    give_map = rng.random() < 0.6
    if give_map:
        data["leaf_object_species"] = leafmap
    case = {"kind": "cli", "algo": algo, "style": style, "data": data, "leafmap": leafmap, "costs": gen.random_cost(rng), "given_map": give_map}
    if SC.kind_of(algo) != "plain" or rng.random() < 0.2:
        ordered = SC.kind_of(algo) == "ordered"
        syn = gen.random_syntenies(rng, leaves, max_fam, ordered=ordered or SC.kind_of(algo) == "plain", consistent_p=1.0)
        if rng.random() < 0.6:
            # realistic gene-family names: digit-leading and letter-leading ones mixed, embedded numbers, underscores
            pool = rng.sample(["cas1", "cas2", "cas10", "16S", "23S", "7b", "b10", "b9", "g_1", "Z", "rpoB", "5"], max_fam)
            ren = {f"f{i}": pool[i] for i in range(max_fam)}
            syn = {g: [ren[f] for f in fs] for g, fs in syn.items()}
            case["family_names"] = "realistic"
        data["leaf_syntenies"] = syn
    if algo == "lca":
        case["costs"]["hgt"] = "inf"
    return case


# -------------------------------------------------------------------- oracle
def expected_names(nested_text, prefix):
    """Model of the documented renaming: unnamed ancestors become <prefix># in pre-order, skipping names in use."""
    M = T(newick.parse(nested_text))
    names = {v: M.name[v] for v in M.nodes}
    used = {n for n in names.values() if n}
    k = 0
    for v in M.nodes:  # preorder
        if not names[v]:
            while f"{prefix}{k}" in used:
                k += 1
            names[v] = f"{prefix}{k}"
            used.add(names[v])
    return M, names


def documented_species_of(leaf_name, species_names):
    """The documented convention for leaf names: `<species>_<suffix>`, matched case-insensitively; when species names
    contain underscores, the FIRST prefix (shortest) that is followed by an underscore and names a species wins."""
    low = {s.lower(): s for s in species_names}
    parts = leaf_name.split("_")
    for i in range(1, len(parts)):
        pre = "_".join(parts[:i]).lower()
        if pre in low:
            return low[pre]
    return None


def judge_line(case, obj, printed_min, binary=True):
    """-> list of (monitor, msg)"""
    fails = []
    sol = cli.read_solution(obj)
    for p in sol["problems"]:
        fails.append(("naming", p))
    data = case["data"]
    # the leaf assignment written with the solution: the given one, or the one the documented naming convention implies
    from rv.refmodel import newick as _nw

    sp_leaves = [sol["S"].name[v] for v in sol["S"].leaves()]
    given = data.get("leaf_object_species")
    written = {sol["G"].name[g]: sol["S"].name[s] for g, s in sol["leafmap"].items()}
    for g in (sol["G"].name[v] for v in sol["G"].leaves()):
        want_sp = given[g] if given is not None else documented_species_of(g, sp_leaves)
        if want_sp is not None and written.get(g) != want_sp:
            fails.append(("assignment", f"leaf {g!r} is written in species {written.get(g)!r}, " + ("the input file assigns it to" if given is not None else "the documented naming convention puts it in") + f" {want_sp!r}"))
            break
    for key, prefix, W in (("object_tree", "O", sol["G"]), ("species_tree", "S", sol["S"])):
        M, want = expected_names(data[key], prefix)
        if binary:
            if W.clades() != M.clades():
                fails.append(("naming", f"{key} written with a different topology"))
                continue
            wby = W.by_clade()
            for v in M.nodes:
                got = W.name[wby[M.clade(v)]]
                if got != want[v]:
                    kind = "given name changed" if M.name[v] else "generated name differs from the documented O#/S# pre-order numbering"
                    fails.append(("naming", f"{key}: node with leaves {sorted(M.clade(v))}: written name {got!r}, expected {want[v]!r} ({kind})"))
                    break
        else:
            wby = W.by_clade()
            for v in M.nodes:
                if M.name[v] and M.clade(v) in wby and W.name[wby[M.clade(v)]] != M.name[v]:
                    fails.append(("naming", f"{key}: given name {M.name[v]!r} changed"))
    return fails, sol


def judge_readback(case, obj, sol, printed_min, c):
    """Read the line back through the package and validate / cost it with the model."""
    from superrec2.model.reconciliation import ReconciliationOutput, SuperReconciliationOutput

    fails = []
    kind = SC.kind_of(case["algo"])
    try:
        out = (SuperReconciliationOutput if "syntenies" in obj else ReconciliationOutput).from_dict(obj)
    except Exception as exc:  # noqa: BLE001
        return [("readback", f"the written line does not parse back: {type(exc).__name__}: {exc}")]
    e = bridge.extract(out)
    if kind != "plain" and "syntenies" not in obj:
        return [("readback", "a super-reconciliation algorithm wrote a line without syntenies")]
    if kind != "plain":
        # leaf syntenies of a parsed solution live in its labelling
        e["leafsyn"] = {v: tuple(sol["leafsyn"][sv]) for v in e["G"].leaves() for sv in sol["G"].leaves()
                        if sol["leafsyn"] and sol["G"].name[sv] == e["G"].name[v] and sv in sol["leafsyn"]}
        if kind == "unordered":
            e["leafsyn"] = {v: tuple(sorted(x)) for v, x in e["leafsyn"].items()}
    why = SC.validity(e, kind)
    if why:
        fails.append(("readback", f"the solution read back is not valid: {why}"))
        return fails
    x = SC.model_cost(e, c, kind)
    if x != printed_min:
        fails.append(("readback", f"the solution read back costs {x} by independent recount, printed minimum cost is {printed_min}"))
    return fails


def run_inproc(argv, stdin_text=None):
    """Drive superrec2.cli.__main__.run() in-process.  -> (status, stdout, stderr)"""
    from superrec2.cli import __main__ as main_mod

    out, err = io.StringIO(), io.StringIO()
    old_argv = sys.argv
    sys.argv = ["superrec2"] + argv
    status = None
    try:
        with contextlib.redirect_stdout(out), contextlib.redirect_stderr(err):
            try:
                status = main_mod.run()
            except SystemExit as exc:
                status = exc.code
    finally:
        sys.argv = old_argv
    return (0 if status is None else status), out.getvalue(), err.getvalue()


def reconcile(case, policy, mode, tmp):
    inp = os.path.join(tmp, f"in-{policy}.json")
    outp = os.path.join(tmp, f"out-{policy}.json")
    json.dump(case["data"], open(inp, "w"))
    argv = ["reconcile", "--input", inp, "--output", outp, case["algo"], "--solutions", policy] + cli.cost_args(case["costs"])
    stdio = mode == "real" and case.get("stdio")
    if stdio:
        # default paths of the tool: problem on stdin, solutions on stdout (the minimum cost goes to stderr)
        argv = ["reconcile", case["algo"], "--solutions", policy] + cli.cost_args(case["costs"])
        status, stdout, stderr = cli.run_cli(argv, stdin=json.dumps(case["data"]))
        mc = None
        for line in stderr.splitlines():
            if line.startswith("Minimum cost:"):
                mc = cli.parse_min_cost(line.split(":", 1)[1].strip())
        return {"status": status, "text": stdout, "stderr": stderr, "stdout": stdout, "min": mc}
    if mode == "real":
        status, stdout, stderr = cli.run_cli(argv)
    else:
        status, stdout, stderr = run_inproc(argv)
        # argparse FileType handles stay open in-process: flush by closing what we can
        import gc

        gc.collect()
    text = open(outp).read() if os.path.exists(outp) else ""
    mc = None
    for line in stderr.splitlines():
        if line.startswith("Minimum cost:"):
            mc = cli.parse_min_cost(line.split(":", 1)[1].strip())
    return {"status": status, "text": text, "stderr": stderr, "stdout": stdout, "min": mc}


def draw_inproc(obj_text, orientation, tmp, form=0):
    """form 0: explicit `tikz` type; 1: type guessed from the `.tex` extension; 2: explicit type, output name without
    extension, orientation left to its default."""
    inp = os.path.join(tmp, "draw-in.json")
    outp = os.path.join(tmp, "draw-out.tex" if form != 2 else "draw-out")
    open(inp, "w").write(obj_text)
    if os.path.exists(outp):
        os.remove(outp)
    stub = render_stub.Stub()
    undo = render_stub.install(stub)
    try:
        argv = ["draw", "--input", inp, "--output", outp]
        if form != 2:
            argv += ["--orientation", orientation]
        if form != 1:
            argv.append("tikz")
        status, stdout, stderr = run_inproc(argv)
    except Exception as exc:  # noqa: BLE001
        return {"status": f"exception {type(exc).__name__}: {exc}", "tikz": ""}
    finally:
        undo()
    import gc

    gc.collect()
    return {"status": status, "tikz": open(outp).read() if os.path.exists(outp) else "", "stderr": stderr}


def check_case(ctx, case, mode="inproc", with_draw=True):
    algo = case["algo"]
    kind = SC.kind_of(algo)
    data = case["data"]
    c = {k: (INF if v == "inf" else v) for k, v in case["costs"].items()}
    has_syn = "leaf_syntenies" in data
    with tempfile.TemporaryDirectory(prefix="rv-c12-") as tmp:
        res = {pol: reconcile(case, pol, mode, tmp) for pol in ("any", "all")}
        ctx.count("evaluations", 2)
        if mode == "real":
            ctx.count("mon.real_subprocess", 2)
        if kind != "plain" and not has_syn:
            ctx.count("mon.missing_syntenies")
            for pol, r in res.items():
                if r["status"] != 1 or r["text"].strip():
                    ctx.viol("C12.missing_syntenies", case, f"{algo} without syntenies: exit status {r['status']}, {len(r['text'])} bytes written (expected status 1 and nothing)")
            ctx.sig((algo, "nosyn", mode), True)
            return
        sets = {}
        binary = T(newick.parse(data["object_tree"])).is_binary() and T(newick.parse(data["species_tree"])).is_binary()
        for pol, r in res.items():
            sub = dict(case, policy=pol, mode=mode)
            if r["status"] != 0:
                ctx.viol("C12.status", sub, f"reconcile {algo} --solutions {pol} exited with status {r['status']}: {r['stderr'][-300:]}")
                continue
            lines = r["text"].split("\n")
            if lines and lines[-1] == "":
                lines = lines[:-1]
            if not lines or r["min"] is None:
                ctx.viol("C12.status", sub, "exit status 0 but no solution line / no 'Minimum cost:' line")
                continue
            objs = []
            for ln in lines:
                try:
                    objs.append(json.loads(ln))
                except ValueError:
                    ctx.viol("C12.format", sub, f"output line is not one JSON object: {ln[:80]!r}")
            if pol == "any" and len(objs) != 1:
                ctx.viol("C12.format", sub, f"--solutions any wrote {len(objs)} lines")
            sets[pol] = {json.dumps(o, sort_keys=True) for o in objs}
            for o, ln in list(zip(objs, lines))[:12]:
                ctx.count("mon.naming")
                fails, sol = judge_line(case, o, r["min"], binary)
                ctx.count("mon.readback")
                if not fails:
                    fails += judge_readback(case, o, sol, r["min"], c)
                for mon, msg in fails[:3]:
                    ctx.viol(f"C12.{mon}", sub, f"{algo}/{pol}: {msg}")
                if fails:
                    break
                if not with_draw:
                    continue
                orient = "vertical" if (len(ln) + len(pol)) % 2 else "horizontal"
                form = (len(ln) // 2) % 3
                d = draw_inproc(ln, orient, tmp, form)
                ctx.count("mon.draw")
                ctx.count(f"mon.draw_form{form}")
                ctx.count("evaluations")
                if d["status"] != 0:
                    ctx.viol("C12.draw", sub, f"draw rejected an object written by reconcile: status {d['status']} {d.get('stderr', '')[-200:]}")
                else:
                    p = tikz.parse(d["tikz"])
                    if p["problems"] or not p["nodes"]:
                        ctx.viol("C12.draw", sub, f"draw emitted malformed TikZ: {p['problems'][:2]}")
        if "any" in sets and "all" in sets:
            ctx.count("mon.all_superset_any")
            if not sets["any"] <= sets["all"]:
                ctx.viol("C12.all_superset_any", case, f"{algo}: the `any` solution is not among the {len(sets['all'])} `all` solutions")
    M = T(newick.parse(data["object_tree"]))
    unnamed = sum(1 for v in M.internal() if not M.name[v])
    ctx.sig((algo, case["style"], len(M.leaves()), unnamed > 0, has_syn, case.get("given_map"), mode), len(M.leaves()) >= 3 and unnamed > 0)
    if len(M.leaves()) >= 3:
        ctx.sample({k: v for k, v in case.items()})


def canaries(ctx):
    M, names = expected_names("((a,b),(c,d)O0);", "O")
    ok = [names[v] for v in M.nodes if M.children[v]] == ["O1", "O2", "O0"]
    M, names = expected_names("((a,b)x,(c,d));", "S")
    ok &= [names[v] for v in M.nodes if M.children[v]] == ["S0", "x", "S1"]
    case = {"algo": "lca", "data": {"object_tree": "((X_1,X_2),Y_1);", "species_tree": "(X,Y);"}}
    good = {"input": {"object_tree": "((X_1,X_2)O1,Y_1)O0;", "species_tree": "(X,Y)S0;", "leaf_object_species": {"X_1": "X", "X_2": "X", "Y_1": "Y"}},
            "object_species": {"O0": "S0", "O1": "X", "X_1": "X", "X_2": "X", "Y_1": "Y"}}
    ok &= not judge_line(case, good, 1)[0]
    bad = json.loads(json.dumps(good).replace("O1", "NoName"))
    ok &= bool(judge_line(case, bad, 1)[0])
    bad2 = json.loads(json.dumps(good).replace("O1", "O7"))
    ok &= bool(judge_line(case, bad2, 1)[0])
    bad3 = json.loads(json.dumps(good).replace("O1", "O0"))
    ok &= bool(judge_line(case, bad3, 1)[0])
    c = {"spe": 0, "dup": 1, "hgt": 1, "floss": 1, "sloss": 1}
    sol = cli.read_solution(good)
    ok &= not judge_readback(case, good, sol, 1, c) and bool(judge_readback(case, good, sol, 2, c))
    ctx.count("canaries")
    if not ok:
        raise Inconclusive("C12 canary accepted")


def run(ctx, spec):
    rng = ctx.rng(spec["kind"])
    if spec["kind"] == "pairs":
        algos = ["superdtl", "base_uspfs", "superdtl", "ext_spfs", "superdtl", "base_spfs", "thl", "superdtl"]
        for k in range(spec["count"]):
            algo = algos[(k + spec["i"]) % len(algos)]
            uno = "uspfs" in algo or algo == "superdtl"
            case = random_doc_input(rng, algo, 7 if uno else 6, 4, min_obj=5 if uno else 3, max_fam=4 if uno else 3)
            check_case(ctx, case, "inproc", with_draw=False)
            ctx.count("mon.pairs_without_drawing")
            if ctx.too_many():
                return
        return
    mode = "real" if spec["kind"] == "real" else "inproc"
    for k in range(spec["count"]):
        algo = ALGOS[(k + spec["i"]) % 7]
        case = random_doc_input(rng, algo, 4 if mode == "real" else 5, 3 if mode == "real" else 4)
        if k % 9 == 4 and SC.kind_of(algo) != "plain":
            case["data"].pop("leaf_syntenies", None)
        if mode == "real" and k % 3 == 1:
            case["stdio"] = True
            ctx.count("mon.stdio_runs")
        check_case(ctx, case, mode)
        if ctx.too_many():
            return
    if spec["kind"] == "real" and spec["i"] == 0:
        corpus_cases(ctx)


def corpus_cases(ctx):
    """README example and data/ inputs through the real tool."""
    repo = os.environ.get("VERIF_REPO", "/repo")
    path = os.path.join(repo, "data", "example.in.json")
    if os.path.exists(path):
        data = json.load(open(path))
        leafmap = data.get("leaf_object_species", {})
        for algo in ALGOS:
            case = {"kind": "cli", "algo": algo, "style": "readme", "data": data, "leafmap": leafmap, "costs": dict(gen.DEFAULT), "given_map": True}
            if algo == "lca":
                case["costs"]["hgt"] = "inf"
            check_case(ctx, case, "real")
            ctx.count("corpus_cases")


def replay(ctx, case):
    check_case(ctx, {k: v for k, v in case.items() if k not in ("policy", "mode")}, case.get("mode", "inproc"))
