"""C16 DP entry semantics: R-ENTRY sequential model vs Entry / Table cells, standalone and in situ."""
import itertools
import math

from rv.core import Inconclusive

META = {
    "rule": (
        "Each evaluation is one update history (sequence of (value, tag) candidates split into batches) applied to "
        "a real Entry or Table cell under one (merge, retention) policy pair and read back through "
        "value/infos/info/iter/len/is_infinite, or one combine() of two such entries, or one Entry observed in situ "
        "while a real solver runs (shadow history recorded at Entry.update). Non-trivial: history has >=2 candidates "
        "with >=2 distinct values or a tie at the optimum; distinct = (length, policies, value pattern, tag pattern, "
        "batching, container kind)."
    ),
    "floors": {
        "quick": {"evaluations": 50000, "mon.history": 50000, "mon.combine": 2000, "mon.unwritten": 30, "mon.insitu_entries": 1000, "mon.grid": 1000, "mon.held_handles": 1000},
        "thorough": {"evaluations": 1000000, "mon.history": 1000000, "mon.combine": 20000, "mon.insitu_entries": 20000, "mon.grid": 20000, "mon.held_handles": 20000},
    },
    "exhaustive": {"quick": True, "thorough": True},
    "space": {
        "quick": "all histories of length <=4 over values {0,1,2} x tags {none,a,b}, every batching, 6 policy pairs, standalone entries and 1-3 dimensional table cells (sampled containers)",
        "thorough": "all histories of length <=5 (66 429) x every batching x 6 policy pairs; random histories up to length 40",
    },
    "assumptions": ["R-ENTRY: value = min/max of all offered values; admissible tags per retention policy", "tags are truthy objects (the code ignores falsy tags by design)"],
    "timeout": {"quick": 420, "thorough": 3600},
}

VALUES = (0, 1, 2)
TAGS = (None, "a", "b")


def plan(tier, seed):
    n = 16
    L = 4 if tier == "quick" else 5
    specs = [{"kind": "hist", "i": i, "n": n, "maxlen": L, "nrand": 300 if tier == "quick" else 4000} for i in range(n)]
    specs += [{"kind": "insitu", "i": i, "count": 6 if tier == "quick" else 60} for i in range(4 if tier == "quick" else 8)]
    return specs


# ------------------------------------------------------------------ R-ENTRY
def model(history, is_min):
    """(optimal value or None when nothing offered, set of tags of optimal candidates, any optimal tagged)."""
    if not history:
        return None, set()
    vals = [v for v, _ in history]
    opt = min(vals) if is_min else max(vals)
    tags = {t for v, t in history if v == opt and t is not None}
    return opt, tags


def judge(read, history, is_min, retention):
    """read = dict(value, infos, info, iter, len, is_infinite) observed on the real object."""
    opt, tags = model(history, is_min)
    fails = []
    if opt is None:
        want = math.inf if is_min else -math.inf
        if read["value"] != want or not read["is_infinite"]:
            fails.append(f"unwritten entry reads value {read['value']}, expected {want}")
        if read["infos"] or read["len"] != 0 or read["iter"] or read["info"] is not None:
            fails.append("unwritten entry has tags")
        return fails
    if read["value"] != opt:
        fails.append(f"value {read['value']} != optimum {opt} of the offered candidates")
    if read["is_infinite"] != math.isinf(opt):
        fails.append("is_infinite() disagrees with the optimum")
    infos = set(read["infos"])
    if retention == "ALL":
        if infos != tags:
            fails.append(f"tags {sorted(infos)} != tags of optimal candidates {sorted(tags)}")
    elif retention == "ANY":
        if tags and not (len(infos) == 1 and infos <= tags):
            fails.append(f"ANY: tags {sorted(infos)} should be exactly one of {sorted(tags)}")
        if not tags and infos:
            fails.append(f"ANY: tags {sorted(infos)} but no optimal candidate is tagged")
    else:
        if infos:
            fails.append(f"NONE: tags {sorted(infos)} retained")
    if read["len"] != len(infos):
        fails.append("len() disagrees with infos()")
    if set(read["iter"]) != {(read["value"], t) for t in infos} or len(read["iter"]) != len(infos):
        fails.append("iteration disagrees with value()/infos()")
    if infos and read["info"] not in infos:
        fails.append("info() is not one of infos()")
    if not infos and read["info"] is not None:
        fails.append("info() without tags")
    return fails


def num(x):
    from rv.bridge import num as n

    return n(x)


def read_entry(e, insitu=False):
    infos = set(e.infos())
    if insitu:
        # solver tags (tree nodes) are not orderable and info() takes min(); not part of what is observed in situ
        info = next(iter(infos)) if infos else None
    else:
        info = e.info()
    return {
        "value": num(e.value()),
        "infos": infos,
        "info": info,
        "iter": [(num(c.value), c.info) for c in e],
        "len": len(e),
        "is_infinite": bool(e.is_infinite()),
    }


def batchings(n):
    """All compositions of n into consecutive batch sizes."""
    if n == 0:
        yield ()
        return
    for cuts in itertools.product((0, 1), repeat=n - 1):
        sizes = []
        cur = 1
        for c in cuts:
            if c:
                sizes.append(cur)
                cur = 1
            else:
                cur += 1
        sizes.append(cur)
        yield tuple(sizes)


CONTAINERS = ("entry", "t1list", "t1dict", "t2", "t3")


def make_target(DP, container, merge, retention):
    """Returns (get_entry, apply_batch)"""
    mp = getattr(DP.MergePolicy, merge)
    rp = getattr(DP.RetentionPolicy, retention)
    if container == "entry":
        e = DP.Entry(mp, rp)
        return (lambda: e), (lambda batch: e.update(*batch))
    if container == "t1list":
        t = DP.Table((DP.ListDimension(3),), mp, rp)
        return (lambda: t[1]), (lambda batch: t[1].update(*batch))
    if container == "t1dict":
        t = DP.Table((DP.DictDimension(),), mp, rp)

        def apply(batch):
            if len(batch) == 1:
                t["k"] = batch[0]
            else:
                t["k"].update(*batch)

        return (lambda: t["k"]), apply
    if container == "t2":
        t = DP.Table((DP.DictDimension(), DP.ListDimension(2)), mp, rp)

        def apply(batch):
            if len(batch) == 1:
                t["x"][1] = batch[0]
            else:
                t["x"][1].update(*batch)

        return (lambda: t["x"][1]), apply
    t = DP.Table((DP.ListDimension(2), DP.DictDimension(), DP.DictDimension()), mp, rp)
    return (lambda: t[0][("p", 1)]["q"]), (lambda batch: t[0][("p", 1)]["q"].update(*batch))


SPELLED = {"inf": math.inf, "-inf": -math.inf, "sinf": math.inf, "-sinf": -math.inf, "one_f": 1.0, "one_b": True, "zero_f": 0.0, "mzero_f": -0.0}


def spelled(v):
    """Values that replay files carry as strings: the two spellings of infinity a caller may use (the float and the
    sentinel of the `infinity` package, equal but hashed differently), floats / booleans equal to the integers 0 and 1."""
    if not isinstance(v, str):
        return v
    if v in ("sinf", "-sinf"):
        from infinity import inf as sentinel

        return sentinel if v == "sinf" else -sentinel
    return SPELLED[v]


def check_history(ctx, DP, history, sizes, merge, retention, container):
    case = {"kind": "hist", "history": [list(h) for h in history], "batches": list(sizes), "merge": merge, "retention": retention, "container": container}
    get, apply = make_target(DP, container, merge, retention)
    pos = 0
    as_given = history
    history = [(SPELLED[v] if isinstance(v, str) else v, t) for v, t in history]
    try:
        for sz in sizes:
            apply([DP.Candidate(spelled(v), t) for v, t in as_given[pos : pos + sz]])
            pos += sz
        read = read_entry(get())
    except Exception as exc:  # noqa: BLE001
        ctx.viol("C16.history", case, f"exception {type(exc).__name__}: {exc}")
        return
    ctx.count("evaluations")
    ctx.count("mon.history")
    if not history:
        ctx.count("mon.unwritten")
    for msg in judge(read, history, merge == "MIN", retention):
        ctx.viol("C16.history", case, msg, read={k: (sorted(v, key=repr) if isinstance(v, set) else v) for k, v in read.items()})
    vals = [v for v, _ in history]
    nontriv = len(history) >= 2 and (len(set(vals)) >= 2 or vals.count(min(vals)) >= 2)
    ctx.sig((len(history), merge, retention, tuple(vals), tuple(t for _, t in history), sizes if len(history) <= 3 else len(sizes), container), nontriv)
    if nontriv and len(history) >= 3:
        ctx.sample(case)


COMBINATORS = {
    "sum": lambda DP: (lambda a, b: DP.Candidate(a.value + b.value, (a.info, b.info))),
    "sum_plus_tag": lambda DP: (lambda a, b: DP.Candidate(a.value + b.value + (1 if a.info == "a" else 0) + (2 if b.info == "b" else 0), (a.info, b.info))),
    "max_notag": lambda DP: (lambda a, b: DP.Candidate(max(a.value, b.value), None)),
    "diff": lambda DP: (lambda a, b: DP.Candidate(a.value - b.value, a.info + b.info)),
    # not additive: maps an infinite operand to a finite result
    "clip": lambda DP: (lambda a, b: DP.Candidate(max(-5, min(5, a.value)) + max(-5, min(5, b.value)), (a.info, b.info))),
}


def dec(h):
    """Histories in replay files carry infinite values as the strings 'inf' / '-inf'."""
    return [(math.inf if v == "inf" else (-math.inf if v == "-inf" else v), t) for v, t in h]


def check_combine(ctx, DP, h1, h2, merge, retention, comb, retention2=None):
    """``retention2``: retention policy of the right operand when it differs from the left one's (an ANY entry combined
    with an entry that retains all of its tied tags): the result follows the left operand's policies and is still the
    optimum over ALL pairs of retained candidates."""
    case = {"kind": "combine", "h1": [list(h) for h in h1], "h2": [list(h) for h in h2], "merge": merge, "retention": retention, "comb": comb}
    if retention2:
        case["retention2"] = retention2
    mp = getattr(DP.MergePolicy, merge)
    rp = getattr(DP.RetentionPolicy, retention)
    h1, h2 = dec(h1), dec(h2)
    e1, e2 = DP.Entry(mp, rp), DP.Entry(mp, getattr(DP.RetentionPolicy, retention2) if retention2 else rp)
    e1.update(*[DP.Candidate(v, t) for v, t in h1])
    e2.update(*[DP.Candidate(v, t) for v, t in h2])
    f = COMBINATORS[comb](DP)
    try:
        r = e1.combine(e2, f)
        read = read_entry(r)
    except Exception as exc:  # noqa: BLE001
        ctx.viol("C16.combine", case, f"exception {type(exc).__name__}: {exc}")
        return
    # model: optimum over all pairs of *retained* candidates (read from the real operands)
    pairs = []
    for t1 in e1.infos():
        for t2 in e2.infos():
            cnd = f(DP.Candidate(e1.value(), t1), DP.Candidate(e2.value(), t2))
            pairs.append((num(cnd.value), cnd.info))
    ctx.count("evaluations")
    ctx.count("mon.combine")
    for msg in judge(read, pairs, merge == "MIN", retention):
        ctx.viol("C16.combine", case, msg)
    ctx.sig(("combine", merge, retention, comb, len(pairs), len(set(p[0] for p in pairs))), len(pairs) >= 2)


SHAPES = [sh for n in (1, 2, 3) for sh in itertools.product("LD", repeat=n)]


def check_grid(ctx, DP, shape, merge, retention, ops, held=()):
    """Cells of a table are independent: a multi-cell write history on a table of any List/Dict shape; after it the
    WHOLE grid is read back through fresh proxies and every cell is judged against the model of its own history.

    ``held``: (key, pre_read) pairs - handles ``t[i][j]`` obtained (and, with pre_read, inspected) BEFORE the writes and
    kept; an op whose 4th element is true writes through the held handle of its cell, the others through fresh indexing.
    At the end every held handle must read exactly like a fresh one (a handle is a view of the cell, not a snapshot)."""
    case = {"kind": "grid", "shape": "".join(shape), "merge": merge, "retention": retention, "ops": [[list(op[0])] + list(op[1:]) for op in ops],
            "held": [[list(k), bool(r)] for k, r in held]}
    mp = getattr(DP.MergePolicy, merge)
    rp = getattr(DP.RetentionPolicy, retention)
    dims = tuple(DP.ListDimension(3) if c == "L" else DP.DictDimension() for c in shape)
    try:
        t = DP.Table(dims, mp, rp)

        def cell(key):
            x = t
            for k in key:
                x = x[k]
            return x

        handles = {}
        for key, pre in held:
            key = tuple(key)
            handles[key] = cell(key)
            if pre:
                first = read_entry(handles[key])
                for msg in judge(first, [], merge == "MIN", retention):
                    ctx.viol("C16.grid", dict(case, cell=list(key)), f"unwritten cell {list(key)} of a fresh {''.join(shape)} table: {msg}")
        hist = {}
        for op in ops:
            key, v, tg = tuple(op[0]), op[1], op[2]
            via_held = len(op) > 3 and op[3] and key in handles
            (handles[key] if via_held else cell(key)).update(DP.Candidate(v, tg))
            hist.setdefault(key, []).append((v, tg))
        keys = list(itertools.product(range(3), repeat=len(shape)))
        nbad = 0
        for key in keys:
            ctx.count("mon.grid_cells")
            for msg in judge(read_entry(cell(key)), hist.get(key, []), merge == "MIN", retention):
                ctx.viol("C16.grid", dict(case, cell=list(key)), f"cell {list(key)} of a {''.join(shape)} table after writes to {sorted(map(list, hist))}: {msg}")
                nbad += 1
                break
            if nbad:
                break
        for key, h in handles.items():
            ctx.count("mon.held_handles")
            for msg in judge(read_entry(h), hist.get(key, []), merge == "MIN", retention):
                ctx.viol("C16.grid", dict(case, cell=list(key)), f"handle of cell {list(key)} of a {''.join(shape)} table obtained before the writes: {msg}")
                break
        ctx.count("evaluations")
        ctx.count("mon.grid")
        ctx.sig(("grid", "".join(shape), merge, retention, len(hist), len(handles)), len(hist) >= 2)
        if len(hist) >= 3:
            ctx.sample(case)
    except Exception as exc:  # noqa: BLE001
        ctx.viol("C16.grid", case, f"exception {type(exc).__name__}: {exc}")


def check_proxy_combine(ctx, DP, h1, h2, merge, retention, comb, k):
    """Operands are cells of 1-3 dimensional tables (EntryProxy), one possibly unwritten while a NEIGHBOURING cell
    is written; result compared with the model over the retained candidates; plus Table.entry(value, infos)."""
    case = {"kind": "proxy_combine", "h1": [list(h) for h in h1], "h2": [list(h) for h in h2], "merge": merge, "retention": retention, "comb": comb, "k": k}
    mp = getattr(DP.MergePolicy, merge)
    rp = getattr(DP.RetentionPolicy, retention)
    try:
        if k % 3 == 0:
            t = DP.Table((DP.ListDimension(3), DP.DictDimension()), mp, rp)
            c1, c2, other = t[0]["x"], t[2]["y"], t[0]["neighbour"]
        elif k % 3 == 1:
            t = DP.Table((DP.DictDimension(), DP.DictDimension(), DP.ListDimension(2)), mp, rp)
            c1, c2, other = t["a"]["b"][0], t["a"]["b"][1], t["a"]["c"][0]
        else:
            t = DP.Table((DP.ListDimension(4),), mp, rp)
            c1, c2, other = t[0], t[3], t[1]
        other.update(DP.Candidate(1, "n"))
        if h1:
            c1.update(*[DP.Candidate(v, tg) for v, tg in h1])
        if h2:
            c2.update(*[DP.Candidate(v, tg) for v, tg in h2])
        f = COMBINATORS[comb](DP)
        r = c1.combine(c2, f)
        read = read_entry(r)
        pairs = []
        for t1 in c1.infos():
            for t2 in c2.infos():
                cnd = f(DP.Candidate(c1.value(), t1), DP.Candidate(c2.value(), t2))
                pairs.append((num(cnd.value), cnd.info))
        ctx.count("evaluations")
        ctx.count("mon.combine")
        ctx.count("mon.proxy_combine")
        for msg in judge(read, pairs, merge == "MIN", retention):
            ctx.viol("C16.combine", case, f"combine of table cells: {msg}")
        # the operands themselves still read as their histories say (a neighbour's write must not leak)
        for cell, hist in ((c1, h1), (c2, h2)):
            for msg in judge(read_entry(cell), list(hist), merge == "MIN", retention):
                ctx.viol("C16.history", case, f"table cell next to a written neighbour: {msg}")
        # Table.entry(value, infos): explicit initial state, then updates
        tags = sorted({tg for _, tg in h1 if tg})
        e = t.entry(1, tags)
        e.update(*[DP.Candidate(v, tg) for v, tg in h2])
        init = [(1, tg) for tg in tags] or [(1, None)]
        if retention == "NONE" or (retention == "ANY" and len(tags) > 1):
            return  # an explicit initial tag set outside the policy is the caller's business
        for msg in judge(read_entry(e), init + list(h2), merge == "MIN", retention):
            ctx.viol("C16.history", case, f"Table.entry(1, {tags}) then updates: {msg}")
        ctx.sig(("proxy", merge, retention, comb, len(pairs), k % 3), True)
    except Exception as exc:  # noqa: BLE001
        ctx.viol("C16.combine", case, f"exception {type(exc).__name__}: {exc}")


# ------------------------------------------------------------------ in situ
def check_defaults(ctx, DP, vals, k):
    """Defaults of the constructors (part of their signatures): minimise, retain no tags."""
    case = {"kind": "defaults", "values": list(vals), "k": k}
    try:
        if k % 2 == 0:
            e = DP.Entry(vals[0], ["t"] if k % 4 == 0 else [])
            e.update(DP.Candidate(vals[1], "a"), DP.Candidate(vals[2], None))
            read = read_entry(e)
            want_val = min(vals)
            if read["value"] != want_val:
                ctx.viol("C16.history", case, f"Entry({vals[0]}, ...) built without policies, then offered {vals[1:]}: value {read['value']}, the default merge policy keeps the minimum {want_val}")
            if vals[0] > min(vals[1:]) and read["infos"]:
                ctx.viol("C16.history", case, f"Entry built without policies retained tags {sorted(read['infos'])} after an improvement: the default retention policy keeps none")
        else:
            t = DP.Table((DP.ListDimension(2), DP.DictDimension()))
            t[1]["k"].update(*[DP.Candidate(v, f"x{i}") for i, v in enumerate(vals)])
            for msg in judge(read_entry(t[1]["k"]), [(v, f"x{i}") for i, v in enumerate(vals)], True, "NONE"):
                ctx.viol("C16.history", case, f"cell of a Table built without policies (defaults: minimise, retain nothing): {msg}")
            for msg in judge(read_entry(t[0]["k"]), [], True, "NONE"):
                ctx.viol("C16.history", case, f"unwritten cell of a Table built without policies: {msg}")
        ctx.count("evaluations")
        ctx.count("mon.defaults")
    except Exception as exc:  # noqa: BLE001
        ctx.viol("C16.history", case, f"exception {type(exc).__name__}: {exc}")


def check_alias(ctx, DP, h1, extra, merge, retention, k):
    """Aliasing sanitizer: an entry built explicitly from a live ``set`` (the caller's own set, or the tag set read from
    another entry) must own its tags.  After tied candidates are offered to either holder, the other holder and the
    caller's set must read exactly as before."""
    case = {"kind": "alias", "h1": [list(h) for h in h1], "extra": [list(h) for h in extra], "merge": merge, "retention": retention, "k": k}
    mp = getattr(DP.MergePolicy, merge)
    rp = getattr(DP.RetentionPolicy, retention)
    try:
        src = DP.Entry(mp, rp)
        src.update(*[DP.Candidate(v, tg) for v, tg in h1])
        model_src = list(h1)
        val = src.value()
        live = src.infos() if k % 2 == 0 else set(src.infos())
        mine_before = set(live)
        if k % 3 == 0:
            t = DP.Table((DP.ListDimension(2),), mp, rp)
            new = t.entry(val, live)
        else:
            new = DP.Entry(val, live, mp, rp)
        model_new = [(num(val), tg) for tg in mine_before] or [(num(val), None)]
        ties = [(num(val), tg) for _, tg in extra]
        if k % 4 < 2:
            new.update(*[DP.Candidate(val, tg) for _, tg in extra])
            model_new = model_new + ties
        else:
            src.update(*[DP.Candidate(val, tg) for _, tg in extra])
            model_src = model_src + ties
        ctx.count("evaluations")
        ctx.count("mon.alias")
        if k % 2 == 1 and live != mine_before:
            ctx.viol("C16.history", case, f"the caller's own tag set changed from {sorted(mine_before)} to {sorted(live)} after updates of an entry built from it")
        for who, e, hist in (("the source entry", src, model_src), ("the entry built from its tags", new, model_new)):
            for msg in judge(read_entry(e), hist, merge == "MIN", retention):
                ctx.viol("C16.history", case, f"{who} after tied candidates were offered to the other one: {msg}")
                break
        ctx.sig(("alias", merge, retention, len(mine_before), len(extra), k % 12), True)
    except Exception as exc:  # noqa: BLE001
        ctx.viol("C16.history", case, f"exception {type(exc).__name__}: {exc}")


class Shadow:
    """L2: record the update history of every Entry created while real solvers run."""

    def __init__(self, DP):
        self.DP = DP
        self.entries = {}
        self.orig_update = DP.Entry.update
        self.attached = all(hasattr(DP.Entry, a) for a in ("update", "value", "infos"))
        shadow = self

        def update(self_, *cands, **kw):
            rec = None
            try:
                rec = shadow.entries.get(id(self_))
                if rec is None:
                    # entry first seen here: its state so far is an opaque initial candidate set
                    init = [(num(self_.value()), t) for t in self_.infos()] or ([(num(self_.value()), None)] if not self_.is_infinite() else [])
                    rec = shadow.entries[id(self_)] = (self_, list(init))
            except Exception:  # noqa: BLE001 - the shadow must never disturb what it observes
                shadow.attached = False
            res = shadow.orig_update(self_, *cands, **kw)
            try:
                if rec is not None:
                    rec[1].extend((num(c.value), c.info) for c in cands)
            except Exception:  # noqa: BLE001
                shadow.attached = False
                shadow.entries.pop(id(self_), None)
            return res

        DP.Entry.update = update

    def detach(self):
        self.DP.Entry.update = self.orig_update


def insitu(ctx, spec):
    import superrec2.utils.dynamic_programming as DP
    from rv import bridge, gen, solvercheck as SC

    rng = ctx.rng("insitu")
    for k in range(spec["count"]):
        algo = ["thl", "ext_spfs", "superdtl", "base_spfs", "base_uspfs", "exh"][k % 6]
        Gn, Sn, lm = gen.random_input(rng, 5, 4, min_obj=2)
        case = {"kind": "insitu", "algo": algo, "G": Gn, "S": Sn, "leafmap": lm, "costs": gen.random_cost(rng)}
        if algo not in ("thl", "exh"):
            case["syn"] = gen.random_syntenies(rng, list(lm), 3, ordered=algo.endswith("_spfs"), consistent_p=1.0)
        pol = rng.choice(["ALL", "ANY"])
        case["policy"] = pol
        run_insitu_case(ctx, DP, case)


def run_insitu_case(ctx, DP, case):
    from rv import bridge, solvercheck as SC

    B = bridge.Built(case)
    sh = Shadow(DP)
    try:
        obs = SC.call(case["algo"], B.inp, getattr(DP.RetentionPolicy, case["policy"]))
    finally:
        sh.detach()
    if not sh.attached:
        ctx.notes.append("hook not attached: Entry.update")
        return
    ctx.count("evaluations")
    n = 0
    for ent, hist in sh.entries.values():
        mp = getattr(ent, "_merge_policy", None)
        rp = getattr(ent, "_retention_policy", None)
        if mp is None or rp is None:
            ctx.notes.append("hook not attached: Entry policies not readable")
            return
        n += 1
        for msg in judge(read_entry(ent, insitu=True), hist, mp.name == "MIN", rp.name):
            ctx.viol("C16.insitu", case, f"entry updated by {case['algo']}: {msg}", history=[[v, repr(t)[:60]] for v, t in hist[:12]])
            break
    ctx.count("mon.insitu_entries", n)
    ctx.sig(("insitu", case["algo"], case["policy"], min(n // 50, 20)), n > 0)


def canaries(ctx):
    ok = bool(judge({"value": 0, "infos": {"a"}, "info": "a", "iter": [(0, "a")], "len": 1, "is_infinite": False}, [(1, "a"), (0, None)], True, "ALL"))
    ok &= bool(judge({"value": 1, "infos": set(), "info": None, "iter": [], "len": 0, "is_infinite": False}, [(1, "a"), (0, None)], True, "NONE"))
    ok &= bool(judge({"value": 0, "infos": {"a", "b"}, "info": "a", "iter": [(0, "a"), (0, "b")], "len": 2, "is_infinite": False}, [(0, "a"), (0, "b")], True, "ANY"))
    ok &= bool(judge({"value": 0, "infos": {"a"}, "info": "a", "iter": [(0, "a")], "len": 1, "is_infinite": False}, [(0, "a"), (0, "b")], True, "ALL"))
    ok &= not judge({"value": 0, "infos": {"b"}, "info": "b", "iter": [(0, "b")], "len": 1, "is_infinite": False}, [(0, "a"), (0, "b")], True, "ANY")
    ok &= bool(judge({"value": 0, "infos": set(), "info": None, "iter": [], "len": 0, "is_infinite": False}, [], True, "ALL"))
    ctx.count("canaries")
    if not ok:
        raise Inconclusive("C16 canary accepted")


def run(ctx, spec):
    import superrec2.utils.dynamic_programming as DP

    if spec["kind"] == "insitu":
        return insitu(ctx, spec)
    options = [(v, t) for v in VALUES for t in TAGS]
    idx = 0
    policies = [(m, r) for m in ("MIN", "MAX") for r in ("NONE", "ANY", "ALL")]
    for L in range(0, spec["maxlen"] + 1):
        for history in itertools.product(options, repeat=L):
            idx += 1
            if idx % spec["n"] != spec["i"]:
                continue
            for sizes in batchings(L):
                for merge, retention in policies:
                    container = CONTAINERS[(idx + len(sizes) + len(retention)) % len(CONTAINERS)] if L else CONTAINERS[(idx + len(merge) + len(retention)) % 5]
                    check_history(ctx, DP, history, sizes, merge, retention, container)
                    if L == 0:
                        for cont in CONTAINERS:
                            check_history(ctx, DP, history, sizes, merge, retention, cont)
            if ctx.too_many():
                return
    # combine: pairs of short histories
    rng = ctx.rng("combine")
    short = [h for L in range(0, 3) for h in itertools.product(options, repeat=L)]
    for k in range(len(short) * (2 if ctx.tier == 'quick' else 16)):
        h1, h2 = rng.choice(short), rng.choice(short)
        merge, retention = rng.choice(policies)
        comb = rng.choice(sorted(COMBINATORS))
        if comb == "diff":
            h1 = [(v, t or "x") for v, t in h1]
            h2 = [(v, t or "y") for v, t in h2]
        check_combine(ctx, DP, h1, h2, merge, retention, comb)
    # combine with infinite candidates: an entry all of whose candidates are infinitely bad still retains their tags, an
    # infinitely good candidate wins; one sign of infinity per case (inf - inf is not a number)
    for k in range(300 if ctx.tier == "quick" else 6000):
        merge, retention = policies[k % len(policies)]
        infv = rng.choice([math.inf, -math.inf])
        pool = [0, 1, 2, infv, infv]
        h1 = [(rng.choice(pool), rng.choice(TAGS)) for _ in range(rng.randint(1, 3))]
        h2 = [(rng.choice(pool), rng.choice(TAGS)) for _ in range(rng.randint(0, 3))]
        if k % 3 == 0:
            h1 = [(infv, t) for _, t in h1]
        ctx.count("mon.combine_infinite")
        check_combine(ctx, DP, h1, h2, merge, retention, rng.choice(["sum", "sum_plus_tag", "max_notag", "clip", "clip"]))
    # equal values spelled differently inside one history / one batch: float inf and the sentinel of the `infinity`
    # package (equal, different hashes), 1 / 1.0 / True, 0 / 0.0 / -0.0 - ties must be recognised as ties
    for k in range(600 if ctx.tier == "quick" else 12000):
        merge, retention = policies[k % len(policies)] if k % 2 else (("MIN", "ALL") if k % 4 else ("MAX", "ALL"))
        sign = "" if (merge == "MIN") == (k % 8 < 6) else "-"
        pool = rng.choice([[sign + "inf", sign + "sinf"], [sign + "inf", sign + "sinf", 1], [1, "one_f", "one_b", 2], [0, "zero_f", "mzero_f", 1], [sign + "sinf", sign + "inf", sign + "sinf", 0]])
        L = rng.randint(2, 5)
        hist = tuple((rng.choice(pool), rng.choice(["a", "b", "c", "d", None])) for _ in range(L))
        sizes = rng.choice(list(batchings(L)))
        ctx.count("mon.history_equal_values_spelled_differently")
        # infinite candidates only on standalone entries: a table cell is documented to come into existence with the first
        # NON-infinite candidate (EntryProxy docstring), so what an all-infinite batch leaves in a cell is not Entry semantics
        infinite = any(isinstance(v, str) and "inf" in v for v, _ in hist)
        check_history(ctx, DP, hist, sizes, merge, retention, "entry" if infinite else CONTAINERS[k % len(CONTAINERS)])
    for k in range(20):
        check_defaults(ctx, DP, [rng.choice(VALUES) for _ in range(3)], k)
    # operands with different retention policies (ANY x ALL, ALL x ANY, NONE x ALL), tag-dependent combinators
    for k in range(300 if ctx.tier == "quick" else 5000):
        merge = "MIN" if k % 2 else "MAX"
        r1, r2 = [("ANY", "ALL"), ("ALL", "ANY"), ("ANY", "ALL"), ("NONE", "ALL")][k % 4]
        v1, v2 = rng.choice(VALUES), rng.choice(VALUES)
        h1 = [(v1, t) for t in rng.sample(["a", "b", "c"], rng.randint(1, 3))]
        h2 = [(v2, t) for t in rng.sample(["a", "b", "c", "d"], rng.randint(1, 4))]
        ctx.count("mon.combine_mixed_policies")
        check_combine(ctx, DP, h1, h2, merge, r1, rng.choice(["sum_plus_tag", "diff", "sum_plus_tag"]), retention2=r2)
    # aliasing: entries built explicitly from a live tag set
    for k in range(240 if ctx.tier == "quick" else 4000):
        merge, retention = ("MIN", "ALL") if k % 3 else rng.choice([("MAX", "ALL"), ("MIN", "ANY"), ("MAX", "ANY")])
        v0 = rng.choice(VALUES)
        ntag = rng.randint(0, 3) if retention == "ALL" else rng.randint(0, 1)
        h1 = [(v0, f"s{i}") for i in range(ntag)] or [(v0, None)]
        extra = [(v0, rng.choice(["x", "y", "z"])) for _ in range(rng.randint(1, 3))]
        check_alias(ctx, DP, h1, extra, merge, retention, k)
    # independence of cells on every List/Dict shape of 1-3 dimensions
    for k in range(120 if ctx.tier == "quick" else 2500):
        shape = SHAPES[(k + spec["i"]) % len(SHAPES)]
        merge, retention = policies[(k // len(SHAPES)) % len(policies)]
        ops = [(tuple(rng.randrange(3) for _ in shape), rng.choice(VALUES), rng.choice(TAGS), rng.random() < 0.4) for _ in range(rng.randint(1, 8))]
        held = []
        if k % 2:
            cells = sorted({op[0] for op in ops}) + [tuple(rng.randrange(3) for _ in shape)]
            held = [(c, rng.random() < 0.6) for c in cells if rng.random() < 0.7]
        check_grid(ctx, DP, shape, merge, retention, ops, held)
    # combine where the operands are table cells (proxies), possibly never written, and Table.entry(value, infos)
    for k in range(150 if ctx.tier == "quick" else 1500):
        merge, retention = rng.choice(policies)
        check_proxy_combine(ctx, DP, rng.choice(short), rng.choice(short), merge, retention, rng.choice(["sum", "sum_plus_tag"]), k)
    # combine of entries holding many tied tags (ALL) and with MAX policy
    for k in range(200 if ctx.tier == 'quick' else 3000):
        n1, n2 = rng.randint(1, 6), rng.randint(1, 6)
        v1, v2 = rng.randint(0, 2), rng.randint(0, 2)
        h1 = [(v1, f"t{i}") for i in range(n1)] + [(v1 + rng.choice([1, 2]) * (1 if k % 2 else -1) * 0 + 3, "z")]
        h2 = [(v2, f"u{i}") for i in range(n2)]
        rng.shuffle(h1)
        merge, retention = rng.choice(policies)
        if merge == "MAX":
            h1 = [(-v, t) for v, t in h1]
            h2 = [(-v, t) for v, t in h2]
        check_combine(ctx, DP, h1, h2, merge, retention, rng.choice(["sum", "sum_plus_tag", "diff"]))
    # float candidates that differ by a rounding error only (0.1 + 0.2 vs 0.3): the optimum is the exact minimum / maximum
    fpool = [0.1 + 0.2, 0.3, 0.7 + 0.1, 0.8, 0.1 * 3, 0.6 / 2, 1.1 + 2.2, 3.3, 0.30000000000000004, 0.29999999999999993, 1e-12, 0.0, 2.5, 0.5]
    for k in range(300 if ctx.tier == "quick" else 5000):
        L = rng.randint(2, 6)
        history = [(rng.choice(fpool), rng.choice([None, "a", "b", "c"])) for _ in range(L)]
        sizes = []
        rem = L
        while rem:
            s = rng.randint(1, rem)
            sizes.append(s)
            rem -= s
        merge, retention = policies[k % len(policies)]
        ctx.count("mon.float_histories")
        check_history(ctx, DP, history, tuple(sizes), merge, retention, rng.choice(CONTAINERS))
        if k % 3 == 0:
            h2 = [(rng.choice(fpool), rng.choice(["x", "y"])) for _ in range(rng.randint(1, 3))]
            check_combine(ctx, DP, [(v, t or "n") for v, t in history[:3]], h2, merge, retention, "sum")
    # random long histories with wider values
    for _ in range(spec["nrand"]):
        L = rng.randint(6, 40)
        history = [(rng.randint(-3, 6), rng.choice([None, "a", "b", "c", "dd"])) for _ in range(L)]
        sizes = []
        rem = L
        while rem:
            s = rng.randint(1, min(rem, 6))
            sizes.append(s)
            rem -= s
        merge, retention = rng.choice(policies)
        check_history(ctx, DP, history, tuple(sizes), merge, retention, rng.choice(CONTAINERS))


def replay(ctx, case):
    import superrec2.utils.dynamic_programming as DP

    if case["kind"] == "hist":
        hist = [tuple(tuple(x) if isinstance(x, list) else x for x in h) for h in case["history"]]
        check_history(ctx, DP, hist, tuple(case["batches"]), case["merge"], case["retention"], case["container"])
    elif case["kind"] == "defaults":
        check_defaults(ctx, DP, case["values"], case["k"])
    elif case["kind"] == "alias":
        check_alias(ctx, DP, [tuple(h) for h in case["h1"]], [tuple(h) for h in case["extra"]], case["merge"], case["retention"], case["k"])
    elif case["kind"] == "grid":
        check_grid(ctx, DP, tuple(case["shape"]), case["merge"], case["retention"], [tuple([tuple(op[0])] + list(op[1:])) for op in case["ops"]],
                   [(tuple(k), r) for k, r in case.get("held", [])])
    elif case["kind"] == "proxy_combine":
        check_proxy_combine(ctx, DP, [tuple(h) for h in case["h1"]], [tuple(h) for h in case["h2"]], case["merge"], case["retention"], case["comb"], case["k"])
    elif case["kind"] == "combine" and case.get("retention2"):
        check_combine(ctx, DP, [tuple(h) for h in case["h1"]], [tuple(h) for h in case["h2"]], case["merge"], case["retention"], case["comb"], retention2=case["retention2"])
    elif case["kind"] == "combine":
        check_combine(ctx, DP, [tuple(h) for h in case["h1"]], [tuple(h) for h in case["h2"]], case["merge"], case["retention"], case["comb"])
    else:
        run_insitu_case(ctx, DP, case)
