"""C19 Topological orderings: complete, without repetition; single ordering iff one exists."""
import collections
import copy
import itertools

from rv.core import Inconclusive

META = {
    "rule": (
        "Each evaluation is one call of toposort_all or toposort on a directed graph (dict vertex -> successor set, "
        "self-loops allowed), judged by permutation filtering: the event log of returned orderings must be exactly the "
        "multiset of permutations that respect every edge, toposort returns a member iff that set is non-empty, and the "
        "input graph is unchanged (mutation sanitizer). Exhaustive over all digraphs on <=N vertices, random digraphs / "
        "DAGs up to 7 vertices, plus the precedence graphs the ordered solver builds (in situ). Non-trivial: >=2 "
        "vertices and >=1 edge; distinct = graph (small) or (n, #edges, #orderings)."
    ),
    "floors": {
        "quick": {"evaluations": 10000, "mon.all": 5000, "mon.one": 5000, "mon.insitu": 10, "duplicate_constraint_presentations": 200, "mon.edit_history": 1000},
        "thorough": {"evaluations": 140000, "mon.all": 70000, "mon.one": 70000, "mon.insitu": 100, "mon.edit_history": 10000},
    },
    "exhaustive": {"quick": True, "thorough": True},
    "space": {"quick": "all digraphs on <=3 vertices (self-loops included) + 5k random on 4 + random up to 7", "thorough": "all 65 536 digraphs on 4 vertices and all smaller ones; random digraphs and DAGs up to 7 vertices"},
    "assumptions": ["every vertex is a key of the graph dict (the documented input format)", "the same directed graph is also presented with successor lists that state a constraint twice (as the repository's tests pass lists); the expected orderings are those of the underlying graph"],
    "timeout": {"quick": 420, "thorough": 3600},
}


def plan(tier, seed):
    q = tier == "quick"
    n = 16
    specs = [{"kind": "exh", "i": i, "n": n, "maxv": 3 if q else 4, "nrand4": 320 if q else 0, "nrand": 150 if q else 3000} for i in range(n)]
    specs += [{"kind": "insitu", "i": i, "count": 6 if q else 60} for i in range(2)]
    return specs


def model_orders(graph):
    vs = list(graph)
    res = []
    for perm in itertools.permutations(vs):
        pos = {v: i for i, v in enumerate(perm)}
        if all(pos[a] < pos[b] for a in graph for b in graph[a]):
            res.append(tuple(perm))
    return res


def judge_all(graph, returned):
    want = collections.Counter(model_orders(graph))
    got = collections.Counter(tuple(o) for o in returned)
    fails = []
    rep = [o for o, k in got.items() if k > 1]
    if rep:
        fails.append(f"ordering {list(rep[0])} returned {got[rep[0]]} times")
    missing = set(want) - set(got)
    extra = set(got) - set(want)
    if missing:
        fails.append(f"{len(missing)} topological ordering(s) missing, e.g. {list(sorted(missing, key=repr)[0])}")
    if extra:
        fails.append(f"{len(extra)} returned ordering(s) are not topological orderings, e.g. {list(sorted(extra, key=repr)[0])}")
    return fails, len(want)


def judge_one(graph, returned):
    want = set(model_orders(graph))
    if returned is None:
        return [f"returned None although {len(want)} ordering(s) exist"] if want else []
    if tuple(returned) not in want:
        return [f"returned {list(returned)}, which is not a topological ordering" + ("" if want else " (the graph has a cycle)")]
    return []


def as_lists(graph, rng):
    """The same directed graph presented with successor LISTS in which some constraints are stated twice."""
    out = {}
    for k, v in graph.items():
        lst = list(v)
        for x in list(v):
            if rng.random() < 0.5:
                lst.append(x)
        rng.shuffle(lst)
        out[k] = lst
    return out


def check_graph(ctx, graph, monitor_prefix="C19", extra=None):
    import superrec2.utils.toposort as TS

    case = {"kind": "graph", "graph": {str(k): (sorted(v, key=repr) if isinstance(v, (set, frozenset)) else list(v)) for k, v in graph.items()},
            "lists": not all(isinstance(v, (set, frozenset)) for v in graph.values())}
    if not all(isinstance(k, str) or type(k) is int for k in graph):
        # labels that JSON cannot carry faithfully (tuples, floats, huge ints): keep a literal for the replay
        case["graph_literal"] = repr({k: (sorted(v, key=repr) if isinstance(v, (set, frozenset)) else list(v)) for k, v in graph.items()})
    if extra:
        case.update(extra)
    snap = copy.deepcopy(graph)
    try:
        res_all = TS.toposort_all(graph)
    except Exception as exc:  # noqa: BLE001
        ctx.viol(f"{monitor_prefix}.all", case, f"toposort_all raised {type(exc).__name__}: {exc}")
        res_all = None
    if graph != snap:
        ctx.viol(f"{monitor_prefix}.mutation", case, "toposort_all modified its input graph")
        graph = copy.deepcopy(snap)
    nord = None
    if res_all is not None:
        fails, nord = judge_all(snap, res_all)
        for f in fails:
            ctx.viol(f"{monitor_prefix}.all", case, f"toposort_all: {f}")
        ctx.count("mon.all")
        ctx.count("evaluations")
        ctx.count("mon.orderings_logged", len(res_all))
    try:
        res_one = TS.toposort(graph)
        for f in judge_one(snap, res_one):
            ctx.viol(f"{monitor_prefix}.one", case, f"toposort: {f}")
        ctx.count("mon.one")
        ctx.count("evaluations")
    except Exception as exc:  # noqa: BLE001
        ctx.viol(f"{monitor_prefix}.one", case, f"toposort raised {type(exc).__name__}: {exc}")
    if graph != snap:
        ctx.viol(f"{monitor_prefix}.mutation", case, "toposort modified its input graph")
    nedges = sum(len(v) for v in snap.values())
    n = len(snap)
    sig = ("g", tuple(sorted((str(k), tuple(sorted(map(str, v)))) for k, v in snap.items()))) if n <= 4 else ("G", n, nedges, nord)
    ctx.sig(sig, n >= 2 and nedges >= 1)
    if n >= 3 and nord and nord >= 2:
        ctx.sample(case)


def apply_edit(graph, edit):
    op, a, b = edit
    succ = graph[a]
    is_set = isinstance(succ, (set, frozenset))
    if op == "del":
        if is_set:
            succ.discard(b)
        else:
            while b in succ:
                succ.remove(b)
    elif op == "add":
        succ.add(b) if is_set else succ.append(b)
    else:
        graph[b] = set() if is_set else []
        succ.add(b) if is_set else succ.append(b)


def check_edit_history(ctx, graph, rng, steps=2, edits=None):
    """History workload: the SAME graph object is sorted, edited in place (an edge added to / removed from a successor
    collection, a vertex added), and sorted again; each answer must be exact for the graph as it is at that moment.
    The initial graph and the edits are recorded in the case, so that a replay re-creates the history."""
    verts = list(graph)
    if not verts:
        return
    initial = {str(k): (sorted(v, key=repr) if isinstance(v, (set, frozenset)) else list(v)) for k, v in graph.items()}
    lists = not all(isinstance(v, (set, frozenset)) for v in graph.values())
    done = []
    for step in range(len(edits) if edits is not None else steps):
        if edits is not None:
            e = edits[step]
        else:
            a, b = rng.choice(verts), rng.choice(verts)
            if b in graph[a] and rng.random() < 0.6:
                e = ("del", a, b)
            elif rng.random() < 0.85 or len(graph) >= 6:
                e = ("add", a, b)
            else:
                new = f"new{len(graph)}" if isinstance(verts[0], str) else len(graph) + 100
                verts.append(new)
                e = ("vertex", a, new)
        apply_edit(graph, e)
        done.append([e[0], e[1], e[2]])
        ctx.count("mon.edit_history")
        check_graph(ctx, graph, extra={"history": "same graph object sorted before, then edited in place", "initial": initial, "initial_lists": lists, "edits": [list(x) for x in done]})


def check_big_graph(ctx, kind, n, rng):
    """Graphs of 100-400 vertices whose orderings are known by construction (permutation filtering is out of reach):
    a chain has exactly 1; a chain plus k isolated vertices has (n)!/(n-k)! placements; two disjoint chains of a and b
    vertices have C(a+b, a); any of them plus one back edge has none.  Every returned ordering is also checked edge by
    edge, and they must be pairwise distinct."""
    import math
    import superrec2.utils.toposort as TS

    names = [f"v{i}" for i in range(n)] if rng.random() < 0.5 else list(range(n))
    rng.shuffle(names)
    g = {v: set() for v in names}
    if kind == "chain":
        for a, b in zip(names, names[1:]):
            g[a].add(b)
        want = 1
    elif kind == "chain_iso":
        k = rng.choice([1, 2]) if n <= 100 else 1
        chain = names[: n - k]
        for a, b in zip(chain, chain[1:]):
            g[a].add(b)
        want = math.perm(n, k)
    elif kind == "two_chains":
        a = rng.choice([1, 2]) if n <= 100 else 1
        c1, c2 = names[:a], names[a:]
        for ch in (c1, c2):
            for x, y in zip(ch, ch[1:]):
                g[x].add(y)
        want = math.comb(n, a)
    else:  # cyclic: a chain with one back edge
        for a, b in zip(names, names[1:]):
            g[a].add(b)
        i = rng.randrange(1, n)
        g[names[i]].add(names[rng.randrange(0, i)])
        want = 0
    if rng.random() < 0.5:
        items = list(g.items())
        rng.shuffle(items)
        g = dict(items)
    case = {"kind": "biggraph", "shape": kind, "n": n, "graph": {str(k): sorted(map(str, v)) for k, v in g.items()}}
    edges = [(a, b) for a in g for b in g[a]]
    try:
        res = TS.toposort_all(g)
        one = TS.toposort(g)
    except Exception as exc:  # noqa: BLE001
        ctx.viol("C19.all", case, f"raised {type(exc).__name__}: {exc} on a {kind} graph of {n} vertices")
        return
    ctx.count("mon.big_graphs")
    ctx.count("evaluations", 2)
    ctx.count("mon.all")
    ctx.count("mon.one")
    seen = set()
    for o in res:
        pos = {v: i for i, v in enumerate(o)}
        if len(o) != n or len(pos) != n or set(pos) != set(g) or any(pos[a] >= pos[b] for a, b in edges):
            ctx.viol("C19.all", case, f"toposort_all returned an invalid ordering on a {kind} graph of {n} vertices")
            break
        seen.add(tuple(o))
    if len(seen) != len(res):
        ctx.viol("C19.all", case, f"toposort_all returned {len(res) - len(seen)} repeated ordering(s) on a {kind} graph of {n} vertices")
    if len(res) != want:
        ctx.viol("C19.all", case, f"toposort_all returned {len(res)} ordering(s) of a {kind} graph of {n} vertices, which has exactly {want}")
    if want == 0:
        if one is not None:
            ctx.viol("C19.one", case, f"toposort returned an ordering of a cyclic graph of {n} vertices")
    else:
        pos = {v: i for i, v in enumerate(one or [])}
        if one is None or len(pos) != n or any(pos[a] >= pos[b] for a, b in edges):
            ctx.viol("C19.one", case, f"toposort failed on an acyclic {kind} graph of {n} vertices")
    ctx.sig(("big", kind, n), True)


def graph_from_bits(n, bits, names=None):
    names = names or list(range(n))
    g = {names[i]: set() for i in range(n)}
    k = 0
    for i in range(n):
        for j in range(n):
            if bits >> k & 1:
                g[names[i]].add(names[j])
            k += 1
    return g


def canaries(ctx):
    g = {0: {1}, 1: set(), 2: set()}
    orders = model_orders(g)
    ok = len(orders) == 3
    ok &= bool(judge_all(g, orders + [orders[0]])[0]) and bool(judge_all(g, orders[1:])[0]) and not judge_all(g, orders)[0]
    ok &= bool(judge_all(g, orders + [(1, 0, 2)])[0])
    ok &= bool(judge_one(g, (1, 0, 2))) and bool(judge_one(g, None)) and not judge_one(g, (2, 0, 1))
    cyc = {0: {1}, 1: {0}}
    ok &= model_orders(cyc) == [] and bool(judge_one(cyc, (0, 1))) and not judge_one(cyc, None)
    ok &= model_orders({0: {0}}) == []
    ctx.count("canaries")
    if not ok:
        raise Inconclusive("C19 canary accepted")


def run(ctx, spec):
    if spec["kind"] == "insitu":
        return insitu(ctx, spec)
    idx = 0
    for n in range(0, spec["maxv"] + 1):
        names = [list(range(n)), [f"f{i}" for i in range(n)]][n % 2]
        for bits in range(1 << (n * n)):
            idx += 1
            if idx % spec["n"] != spec["i"]:
                continue
            g = graph_from_bits(n, bits, names)
            check_graph(ctx, g)
            if 1 <= n <= 3 or (n == 4 and idx % 8 == spec["i"] % 8):
                check_edit_history(ctx, g, ctx.rng("edit", idx), steps=2)
            if n <= 3 or idx % 16 == spec["i"] % 16:
                lr = ctx.rng("lists", idx)
                gl = as_lists(g, lr)
                if any(len(v) != len(set(v)) for v in gl.values()):
                    ctx.count("duplicate_constraint_presentations")
                    check_graph(ctx, gl)
            if ctx.too_many():
                return
    # vertex labels with equal hashes (hash(-1) == hash(-2), hash(2**61 - 1) == hash(0)), mixed label types, tuples
    lrng = ctx.rng("labels")
    pools = [[-1, -2, 5, 7, -3], [0, 2**61 - 1, 1, 2**61], [-1, -2, 0, 2**61 - 1], [(0, 1), (1, 0), (0, 0), "a"], ["a", "ab", "b", "", "ba"], [1.5, 2, -2, -1, "x"]]
    for k in range(60 if ctx.tier == "quick" else 600):
        pool = pools[(k + spec["i"]) % len(pools)]
        n = lrng.randint(2, len(pool))
        names = lrng.sample(pool, n)
        ctx.count("mon.colliding_labels")
        check_graph(ctx, graph_from_bits(n, lrng.getrandbits(n * n) & lrng.getrandbits(n * n), names))
    rng = ctx.rng("big")
    for k in range(3 if ctx.tier == "quick" else 12):
        kind = ["chain", "chain_iso", "two_chains", "cyclic"][(k + spec["i"]) % 4]
        n = rng.choice([100, 255, 256, 257, 258, 300, 400]) if kind != "chain_iso" else rng.choice([100, 257, 300])
        check_big_graph(ctx, kind, n, rng)
    rng = ctx.rng("rand")
    for _ in range(spec["nrand4"]):
        check_graph(ctx, graph_from_bits(4, rng.getrandbits(16), ["a", "b", "c", "d"]))
    for _ in range(spec["nrand"]):
        n = rng.randint(5, 7)
        names = [f"f{i}" for i in range(n)]
        rng.shuffle(names)
        g = {v: set() for v in names}
        dag = rng.random() < 0.7
        p = rng.choice([0.1, 0.25, 0.4, 0.6])
        for i in range(n):
            for j in range(n):
                if (i < j or (not dag and i != j) or (not dag and rng.random() < 0.05)) and rng.random() < p:
                    g[names[i]].add(names[j])
        if dag and rng.random() < 0.5:
            # shuffle key order (insertion order drives the traversal)
            items = list(g.items())
            rng.shuffle(items)
            g = dict(items)
        check_graph(ctx, g)
        if rng.random() < 0.4:
            ctx.count("duplicate_constraint_presentations")
            gl = as_lists(g, rng)
            check_graph(ctx, gl)
            if rng.random() < 0.5:
                check_edit_history(ctx, gl, rng, steps=2)
        if rng.random() < 0.5:
            check_edit_history(ctx, g, rng, steps=3)
        if ctx.too_many():
            return


def insitu(ctx, spec):
    """The precedence graphs built by the ordered solver from the leaf syntenies."""
    import superrec2.compute.super_reconciliation as SR
    from rv import bridge, gen, solvercheck as SC

    rng = ctx.rng("insitu")
    if not hasattr(SR, "toposort_all"):
        ctx.notes.append("hook not attached: super_reconciliation.toposort_all")
        return
    for k in range(spec["count"]):
        Gn, Sn, lm = gen.random_input(rng, 4, 3, min_obj=2)
        case = {"kind": "insitu", "algo": "base_spfs", "G": Gn, "S": Sn, "leafmap": lm, "costs": dict(gen.DEFAULT),
                "syn": gen.random_syntenies(rng, list(lm), 4, ordered=True, consistent_p=0.7)}
        insitu_case(ctx, case)


def insitu_case(ctx, case):
    import superrec2.compute.super_reconciliation as SR
    from rv import bridge, solvercheck as SC

    B = bridge.Built(case)
    orig = SR.toposort_all
    seen = []

    def wrapper(*a, **k):
        graph = a[0] if a else None
        try:
            snap = copy.deepcopy(graph)
        except Exception:  # noqa: BLE001
            snap = None
        res = orig(*a, **k)
        try:
            if snap is not None and len(a) == 1 and not k:
                seen.append((snap, [list(o) for o in res], copy.deepcopy(graph)))
        except Exception:  # noqa: BLE001 - a different call convention is simply not observed
            pass
        return res

    SR.toposort_all = wrapper
    try:
        SC.call(case["algo"], B.inp, bridge.ANY)
    finally:
        SR.toposort_all = orig
    for snap, res, after in seen:
        ctx.count("mon.insitu")
        ctx.count("evaluations")
        fails, nord = judge_all(snap, res)
        for f in fails:
            ctx.viol("C19.insitu", case, f"toposort_all on the solver's precedence graph: {f}")
        if after != snap:
            ctx.viol("C19.insitu", case, "toposort_all modified the solver's precedence graph")
        ctx.sig(("insitu", len(snap), sum(len(v) for v in snap.values()), nord))


def replay(ctx, case):
    if case["kind"] == "insitu":
        return insitu_case(ctx, case)

    def key(k):
        return int(k) if k.lstrip("-").isdigit() else k

    if case.get("kind") == "biggraph":
        import random
        import superrec2.utils.toposort as TS

        # rebuild exactly the recorded graph and judge it by counting (shape-specific expectation recomputed)
        return check_big_graph(ctx, case["shape"], case["n"], random.Random(0))
    if case.get("initial") is not None:
        # history case: rebuild the initial graph, sort it, then apply the recorded edits in place one by one
        conv0 = (lambda v: [key(x) if isinstance(x, str) else x for x in v]) if case.get("initial_lists") else (lambda v: {key(x) if isinstance(x, str) else x for x in v})
        g0 = {key(k): conv0(v) for k, v in case["initial"].items()}
        check_graph(ctx, g0)
        check_edit_history(ctx, g0, None, edits=[(op, key(a) if isinstance(a, str) else a, key(b) if isinstance(b, str) else b) for op, a, b in case["edits"]])
        return
    if case.get("graph_literal"):
        import ast

        lit = ast.literal_eval(case["graph_literal"])
        return check_graph(ctx, {k: (list(v) if case.get("lists") else set(v)) for k, v in lit.items()})
    conv = (lambda v: [key(x) if isinstance(x, str) else x for x in v]) if case.get("lists") else (lambda v: {key(x) if isinstance(x, str) else x for x in v})
    g = {key(k): conv(v) for k, v in case["graph"].items()}
    check_graph(ctx, g)
