"""C14 Layouts are geometrically coherent and orientation-symmetric."""
import random

from rv import gen, render_stub
from rv.core import Inconclusive
from rv.props import _render as R
from rv.props.C13 import _rename, fixtures
from rv.refmodel import dtl

META = {
    "rule": (
        "Each evaluation is one real layout.compute of a valid (super-)reconciliation (enumerated small inputs, random ones up "
        "to 10 leaves, fixtures) for one orientation, with node sizes from the stub measurer (1..100 units) and every numeric "
        "field of DrawParams perturbed within positive values; render is executed too (a KeyError on a missing anchor is an "
        "event). Oracle on the harness-extracted layout: all numbers finite; sibling species boxes disjoint and inside their "
        "parent's; trunks pairwise disjoint; every anchor a drawn branch refers to exists; the horizontal layout equals the "
        "x/y mirror of the vertical layout computed with every stub size transposed (1e-6); a second computation is "
        "identical. Non-trivial: >=2 species and >=1 duplication, transfer or loss; distinct = (sizes, event counts, params "
        "perturbed?, labelled)."
    ),
    "floors": {
        "quick": {"evaluations": 1500, "mon.geometry": 1500, "mon.symmetry": 700, "mon.twice": 700, "perturbed_params": 200},
        "thorough": {"evaluations": 40000, "mon.geometry": 40000, "mon.symmetry": 20000, "mon.twice": 20000, "perturbed_params": 6000},
    },
    "exhaustive": {"quick": True, "thorough": True},
    "space": {"quick": "all valid reconciliations (<=60 per input) of all inputs <=3x3 + random up to 10 leaves + fixtures", "thorough": "all inputs <=4x3 + random up to 10 leaves + fixtures"},
    "assumptions": ["a trunk may protrude from its own species box (seen on the pinned tree; the property does not forbid it)", "stub sizes instead of real TeX measurements"],
    "timeout": {"quick": 420, "thorough": 7200},
}


from rv.core import known_mechanisms

KNOWN = known_mechanisms("C14")


def known(ctx, finding):
    """Replay the listed witness of the trunk-overhang finding."""
    wit = finding["witness"]
    scene = R.Scene(wit["case"])
    params = R.perturbed_params(None, wit["orientation"])
    stub = render_stub.Stub(swap=wit["orientation"] == "HORIZONTAL", lo=1, hi=wit["hi"])
    lay, _ = R.draw(scene, params, stub)
    L = R.extract_layout(scene, lay)
    fails = R.judge_geometry(scene, L)
    if any(m == "trunks_overhang" for m, _ in fails):
        ctx.known.append(f"{finding['id']} {finding['text']}")
    else:
        ctx.notes.append(f"known finding {finding['id']} no longer reproduces")
    for mon, msg in fails:
        if mon != "trunks_overhang":
            ctx.viol(f"C14.{mon}", wit["case"], msg)
    ctx.count("evaluations")


def plan(tier, seed):
    q = tier == "quick"
    n = 16 if q else 32
    specs = [{"kind": "exh", "i": i, "n": n, "max_obj": 3 if q else 4, "max_sp": 3, "nrand": 110 if q else 450, "nemptyroot": 50 if q else 250, "ncrowded": 80 if q else 400} for i in range(n)]
    specs.append({"kind": "fixtures"})
    return specs


def check_scene(ctx, scene, rng, salt="", forced=None, bimodal=False):
    perturb = rng.random() < 0.6
    pseed = rng.randrange(10**9)
    hi = rng.choice([100, 100, 30, 8])
    if forced:
        perturb, pseed, hi = forced
    case = scene.full_case()
    if salt:
        case["stub_salt"] = salt
    if bimodal:
        case["stub_bimodal"] = True
    res = {}
    for orient, swap in (("VERTICAL", False), ("HORIZONTAL", True)):
        params = R.perturbed_params(random.Random(pseed) if perturb else None, orient)  # same perturbation for both orientations
        stub = render_stub.Stub(swap=swap, lo=1, hi=hi, salt=salt, bimodal=bimodal)
        try:
            lay, code = R.draw(scene, params, stub)
            L = R.extract_layout(scene, lay)
            lay2, _ = R.draw(scene, params, render_stub.Stub(swap=swap, lo=1, hi=hi, salt=salt, bimodal=bimodal))
            L2 = R.extract_layout(scene, lay2)
        except Exception as exc:  # noqa: BLE001
            ctx.viol("C14.crash", dict(case, orientation=orient), f"layout/render raised {type(exc).__name__}: {exc}")
            return
        ctx.count("evaluations")
        ctx.count("mon.geometry")
        if perturb:
            ctx.count("perturbed_params")
        for mon, msg in R.judge_geometry(scene, L):
            if mon == "trunks_overhang" and "trunk-overhang" in KNOWN:
                ctx.count("known.F-TRUNK-OVERHANG_cases")  # listed known finding (mechanism), see DESIGN.md section 9
                continue
            ctx.viol(f"C14.{mon}", dict(case, orientation=orient, perturbed=perturb, hi=hi, pseed=pseed), msg)
        ctx.count("mon.twice")
        if R.layout_fingerprint(L) != R.layout_fingerprint(L2):
            ctx.viol("C14.twice", dict(case, orientation=orient, perturbed=perturb, hi=hi, pseed=pseed), "computing the layout twice gives different results")
        res[orient] = L
    ctx.count("mon.symmetry")
    for mon, msg in R.judge_symmetry(scene, res["VERTICAL"], res["HORIZONTAL"]):
        ctx.viol(f"C14.{mon}", dict(case, perturbed=perturb, hi=hi, pseed=pseed), msg)
    n = dtl.event_counts(scene.G, scene.S, scene.m)
    ctx.sig((len(scene.G.leaves()), len(scene.S.leaves()), n["SPE"], n["DUP"], n["HGT"], min(n["LOSS"], 6), perturb, scene.lab is not None, hi),
            len(scene.S.leaves()) >= 2 and n["DUP"] + n["HGT"] + n["LOSS"] > 0)
    if len(scene.S.leaves()) >= 3 and n["HGT"]:
        ctx.sample(case)


def canaries(ctx):
    ok = R.overlap((0, 0, 10, 10), (5, 5, 10, 10)) and not R.overlap((0, 0, 10, 10), (10, 0, 5, 5))
    ok &= R.inside((1, 1, 2, 2), (0, 0, 10, 10)) and not R.inside((1, 1, 20, 2), (0, 0, 10, 10))
    case = {"kind": "render", "G": [["A_0", "B_1"], "B_2"], "S": [["A", "B"], "C"], "leafmap": {"A_0": "A", "B_1": "B", "B_2": "B"}, "costs": dict(gen.DEFAULT), "rseed": 1}
    scene = R.Scene(case)
    pv = R.perturbed_params(None, "VERTICAL")
    ph = R.perturbed_params(None, "HORIZONTAL")
    LV = R.extract_layout(scene, R.draw(scene, pv, render_stub.Stub(swap=False))[0])
    LH = R.extract_layout(scene, R.draw(scene, ph, render_stub.Stub(swap=True))[0])
    LHbad = R.extract_layout(scene, R.draw(scene, ph, render_stub.Stub(swap=False))[0])
    ok &= not R.judge_symmetry(scene, LV, LH) and bool(R.judge_symmetry(scene, LV, LHbad))
    bad = {s: dict(sl) for s, sl in LV.items()}
    kids = scene.S.children[scene.S.root]
    bad[kids[1]] = dict(bad[kids[1]], rect=bad[kids[0]]["rect"])
    ok &= any(m == "boxes" for m, _ in R.judge_geometry(scene, bad))
    bad2 = {s: dict(sl) for s, sl in LV.items()}
    inner = next(k for k in kids if scene.S.children[k])
    other = next(k for k in kids if k != inner)
    grand = scene.S.children[inner][0]
    bad2[other] = dict(bad2[other], trunk=bad2[grand]["trunk"])
    ok &= any(m == "trunks_overhang" for m, _ in R.judge_geometry(scene, bad2))  # trunk of `other` lands on a trunk deep in the neighbouring subtree, outside its own box
    bad2c = {s: dict(sl) for s, sl in LV.items()}
    bad2c[kids[1]] = dict(bad2c[kids[1]], trunk=bad2c[kids[0]]["rect"])
    r2c = R.judge_geometry(scene, bad2c)
    ok &= any(m == "trunks" for m, _ in r2c) and not any(m == "trunks_overhang" and f"species {min(kids)} and {max(kids)}" in t for m, t in r2c)  # direct siblings: never the known mechanism
    bad2b = {s: dict(sl) for s, sl in LV.items()}
    bad2b[scene.S.root] = dict(bad2b[scene.S.root], trunk=bad2b[kids[0]]["rect"])
    ok &= any(m == "trunks" for m, _ in R.judge_geometry(scene, bad2b))  # ancestor/descendant trunks: never the known mechanism
    bad3 = {s: dict(sl) for s, sl in LV.items()}
    bad3[kids[0]] = dict(bad3[kids[0]], anchors={})
    ok &= any(m == "anchors" for m, _ in R.judge_geometry(scene, bad3)) or not any(b["kind"] in ("SPECIATION", "FULL_LOSS") for b in LV[scene.S.root]["branches"])
    bad4 = {s: dict(sl) for s, sl in LV.items()}
    bad4[kids[0]] = dict(bad4[kids[0]], rect=(float("nan"), 0, 1, 1))
    ok &= any(m == "finite" for m, _ in R.judge_geometry(scene, bad4))
    ctx.count("canaries")
    if not ok:
        raise Inconclusive("C14 canary accepted")


def run(ctx, spec):
    if spec["kind"] == "fixtures":
        return fixtures(ctx, "C14", lambda scene, rng: check_scene(ctx, scene, rng))
    rng = ctx.rng("c14")
    idx = 0
    for Gn, Sn, lm in gen.exhaustive_inputs(spec["max_obj"], spec["max_sp"]):
        idx += 1
        if idx % spec["n"] != spec["i"]:
            continue
        ren = {g: f"{s}_{g[1:]}" for g, s in lm.items()}
        case = {"kind": "render", "G": _rename(Gn, ren), "S": Sn, "leafmap": {ren[g]: s for g, s in lm.items()}, "costs": dict(gen.DEFAULT), "rseed": rng.randrange(10**9)}
        base = R.Scene(case)
        maps = list(dtl.all_recs(base.G, base.S, base.leafmap))
        if len(maps) > 40:
            maps = rng.sample(maps, 40)
        for k, m in enumerate(maps):
            c2 = dict(case, mapping={str(a): b for a, b in m.items()})
            if k % 4 == 0 and len(lm) >= 2:
                c2["syn"] = gen.random_syntenies(rng, list(c2["leafmap"]), 3, ordered=True, consistent_p=1.0)
            check_scene(ctx, R.Scene(c2), rng)
            if ctx.too_many():
                return
    # families born below the species root that reach the outgroup only through a transfer: the root species (and often
    # other ancestors) hold no gene at all, so their trunks are as narrow as a trunk can be, next to wide ones
    from rv.refmodel import trees as RT

    for k in range(spec.get("nemptyroot", 25)):
        ns = rng.randint(3, 5)
        sp = rng.sample(list("ABCDEFG"), ns)
        clade = RT.random_tree_shape(rng, sp)
        Sn = [clade, "Zout"] if rng.random() < 0.5 else ["Zout", clade]
        no = rng.randint(3, 6)
        leaves, lmap = [], {}
        for i in range(no):
            s_ = "Zout" if i < rng.choice([1, 1, 2]) else rng.choice(sp)
            nm = f"{s_}_{i}" + ("longlabel" * rng.randint(0, 3) if s_ == "Zout" else "")
            leaves.append(nm)
            lmap[nm] = s_
        rng.shuffle(leaves)
        case = {"kind": "render", "G": RT.random_tree_shape(rng, leaves), "S": Sn, "leafmap": lmap, "costs": dict(gen.DEFAULT), "rseed": rng.randrange(10**9)}
        base = R.Scene(case)
        maps = [m for m in dtl.some_recs(base.G, base.S, base.leafmap, 2000, rng) if base.S.root not in m.values()]
        for m in (rng.sample(maps, 4) if len(maps) > 4 else maps):
            for salt in ("", f"s{k}", f"t{k}"):
                ctx.count("mon.empty_root_scenes")
                check_scene(ctx, R.Scene(dict(case, mapping={str(a): b for a, b in m.items()})), rng, salt=salt)
        if ctx.too_many():
            return
    # crowded trunks: 6-12 genes in one or two species, so that many duplication / transfer nodes are stacked in the same
    # trunk, with node sizes from 1 to 100 (three salts each)
    for k in range(spec.get("ncrowded", 20)):
        ns = rng.choice([1, 2, 2])
        sp = rng.sample(list("ABCD"), ns)
        no = rng.randint(6, 12)
        leaves = [f"{rng.choice(sp)}_{i}" for i in range(no)]
        case = {"kind": "render", "G": RT.random_tree_shape(rng, leaves), "S": (sp[0] if ns == 1 else [sp[0], sp[1]]), "leafmap": {g: g.split("_")[0] for g in leaves},
                "costs": dict(gen.DEFAULT), "rseed": rng.randrange(10**9)}
        for j, salt in enumerate(("", f"c{k}", f"d{k}", f"e{k}", f"f{k}", f"g{k}")):
            ctx.count("mon.crowded_scenes")
            check_scene(ctx, R.Scene(case), rng, salt=salt, bimodal=j >= 2, forced=(False, 0, 100) if j >= 2 else None)
        if ctx.too_many():
            return
    for _ in range(spec["nrand"]):
        check_scene(ctx, R.Scene(R.make_case(rng, 12, 8) if rng.random() < 0.4 else R.make_case(rng, 10, 6)), rng)
        if ctx.too_many():
            return


def replay(ctx, case):
    if case.get("kind") == "fixture":
        return fixtures(ctx, "C14", lambda scene, rng: check_scene(ctx, scene, rng))
    base = {k: v for k, v in case.items() if k not in ("orientation", "perturbed", "hi", "pseed", "stub_salt", "stub_bimodal")}
    salt = case.get("stub_salt", "")
    bim = bool(case.get("stub_bimodal"))
    if case.get("pseed") is not None and case.get("hi") is not None:
        # the recorded drawing parameters and node sizes first
        check_scene(ctx, R.Scene(base), random.Random(0), salt=salt, forced=(bool(case.get("perturbed")), case["pseed"], case["hi"]), bimodal=bim)
    for seed in range(6):
        check_scene(ctx, R.Scene(base), random.Random(seed), salt=salt, bimodal=bim)
