"""C04 Every returned solution is a valid, complete (super-)reconciliation."""
import json
import math

from rv import bridge, cli, gen, solvercheck as SC, suite
from rv.bridge import ALL, ANY
from rv.core import Inconclusive, skippable
from rv.props import _super as SU
from rv.refmodel import dtl, label, trees as RT
from rv.refmodel.trees import T

INF = math.inf
ALL_ALGOS = ["lca", "thl", "exh", "base_spfs", "ext_spfs", "base_uspfs", "superdtl"]
META = {
    "rule": (
        "Each evaluation is one call of one of the seven algorithms under ALL or ANY; EVERY returned solution is extracted "
        "by the harness (nodes by clade) and validated by R-VALID on its own trees and leaf data: total mapping, leaves kept "
        "in their species, no invalid event, finite model cost; ordered: leaf syntenies equal the input, child is a "
        "subsequence of its parent, root holds every family once; unordered: family only inside the subtree of its gain "
        "node and never below a node lacking it. Cost vectors are NOT restricted to the coherent region and include sloss=0; "
        "multifurcating inputs for the extended solvers; the lines written by the real command-line tool are validated too. "
        "Sanitizer: input trees, leaf data, cost dict and the solver's shared gain/required sets are unchanged after the "
        "call. Non-trivial: >=2 object leaves and the solution has a duplication, transfer or loss; distinct = (algorithm, "
        "policy, sizes, event counts, cost flags, polytomy flags)."
    ),
    "floors": {
        "quick": {"evaluations": 2500, "mon.valid_solutions": 4000, "mon.mutation": 2500, "mon.sets": 400, "mon.cli_lines": 5, "noncoherent_cases": 150, "sloss0_cases": 60, "poly_cases": 15},
        "thorough": {"evaluations": 60000, "mon.valid_solutions": 100000, "mon.mutation": 60000, "mon.sets": 10000, "mon.cli_lines": 20, "noncoherent_cases": 5000, "sloss0_cases": 2000, "poly_cases": 300},
    },
    "exhaustive": {"quick": False, "thorough": False},
    "assumptions": ["validity is judged on the trees the solution itself refers to (binarised copies for multifurcating inputs)", "internal node names may be filled in by the solvers (label_internal); the sanitizer compares topology, leaf names and leaf data"],
    "timeout": {"quick": 420, "thorough": 7200},
}


def plan(tier, seed):
    q = tier == "quick"
    n = 16 if q else 32
    specs = [{"kind": "rand", "i": i, "count": 110 if q else 600} for i in range(n)]
    specs += [{"kind": "poly", "i": i, "count": 10 if q else 40} for i in range(8)]
    specs += [{"kind": "deep", "i": i, "count": 120 if q else 1200} for i in range(16)]
    specs += [{"kind": "deep", "i": 100 + i, "count": 100 if q else 1000, "big": True} for i in range(8)]
    specs += [{"kind": "cli", "i": i} for i in range(7 if q else 28)]
    specs.append({"kind": "corpus", "big": not q})
    return specs


def corpus(ctx, spec):
    """data/*.in.json of the tree under test through the real API (the CRISPR input has three polytomies,
    15 leaves, 11 families and species names with spaces; thorough tier only)."""
    import os
    from superrec2.model.reconciliation import SuperReconciliationInput

    repo = os.environ.get("VERIF_REPO", "/repo")
    names = ["example.in.json"] + (["crispr-class1.in.json"] if spec.get("big") else [])
    for name in names:
        path = os.path.join(repo, "data", name)
        if not os.path.exists(path):
            ctx.notes.append(f"corpus file {name} not present")
            continue
        data = json.load(open(path))
        algos = ["superdtl", "ext_spfs", "base_uspfs", "base_spfs"] if name.startswith("example") else ["superdtl"]
        for algo in algos:
            inp = SuperReconciliationInput.from_dict(data)
            case = {"kind": "corpus", "file": name, "algo": algo}
            before = snapshot(inp)
            obs = SC.call(algo, inp, ANY if spec.get("big") and name.startswith("crispr") else ALL)
            ctx.count("evaluations")
            ctx.count("corpus_runs")
            if snapshot(inp) != before:
                ctx.viol("C04.mutation", case, f"{algo} modified its input")
            if obs.exc is not None:
                ctx.viol("C04.total", case, f"{algo} raised on {name}: {obs.exc}")
                continue
            c = bridge.costs_of(inp)
            for e in obs.ext:
                ctx.count("mon.valid_solutions")
                why = judge_solution(e, SC.kind_of(algo), c)
                if why:
                    ctx.viol("C04.valid", case, f"{algo} on {name}: returned solution is {why}")
                    break
            ctx.sig(("corpus", name, algo), True)


def snapshot(inp):
    """Harness-side deep snapshot of an input object (topology by clade, leaf data by name, costs)."""
    def tree_snap(tree):
        res = []
        for node in tree.traverse("preorder"):
            res.append((tuple(sorted(l.name for l in node.iter_leaves())), len(node.children), getattr(node, "color", None), node.name if node.is_leaf() else None))
        return tuple(res)

    snap = {
        "G": tree_snap(inp.object_tree),
        "S": tree_snap(inp.species_lca.tree),
        "leafmap": tuple(sorted((n.name, s.name) for n, s in inp.leaf_object_species.items())),
        "leafmap_ids": tuple(sorted((id(n), id(s)) for n, s in inp.leaf_object_species.items())),
        "costs": tuple(sorted((k.name, repr(v)) for k, v in inp.costs.items())),
    }
    if hasattr(inp, "leaf_syntenies"):
        snap["syn"] = tuple(sorted((tuple(sorted(l.name for l in n.iter_leaves())), tuple(s)) for n, s in inp.leaf_syntenies.items()))
    return snap


def judge_solution(e, kind, c, root_order=None):
    why = SC.validity(e, kind, root_order)
    if why:
        return f"not valid: {why}"
    x = SC.model_cost(e, c, kind)
    if x == INF:
        return "infinite cost (uses an event of infinite cost)"
    return None


@skippable
def check_case(ctx, case):
    B = bridge.Built(case, named=case.get("named", True))
    c = B.c
    if not dtl.coherent(c, plain=not case.get("syn")):
        ctx.count("noncoherent_cases")
    if c["sloss"] == 0 and case.get("syn"):
        ctx.count("sloss0_cases")
    poly = not (B.G.is_binary() and B.S.is_binary())
    if poly:
        ctx.count("poly_cases")
    for algo in case["algos"]:
        kind = SC.kind_of(algo)
        hooks = SU.Hooks("unordered") if kind == "unordered" else None
        try:
            for pol in (ALL, ANY):
                if hooks:
                    hooks.reset()
                before = snapshot(B.inp)
                obs = SC.call(algo, B.inp, pol)
                after = snapshot(B.inp)
                ctx.count("evaluations")
                ctx.count("mon.mutation")
                sub = dict(case, algo=algo, policy=pol.name)
                if before != after:
                    diff = [k for k in before if before[k] != after.get(k)]
                    ctx.viol("C04.mutation", sub, f"{algo}/{pol.name} modified its input ({', '.join(diff)})")
                if obs.exc is not None:
                    ctx.viol("C04.total", sub, f"{algo}/{pol.name} raised on a well-formed input: {obs.exc}")
                    continue
                for e in obs.ext:
                    ctx.count("mon.valid_solutions")
                    why = judge_solution(e, kind, c, B.root_order)
                    if why:
                        ctx.viol("C04.valid", sub, f"{algo}/{pol.name}: returned solution is {why}")
                        break
                if hooks and not poly:
                    fails, n = SU.judge_uspfs(B, algo, hooks, ctx)
                    ctx.count("mon.sets", n)
                    for mon, msg, d in fails:
                        ctx.viol(f"C04.{mon}", sub, f"{algo}/{pol.name}: {msg}")
                if obs.ext:
                    e = obs.ext[0]
                    if set(e["m"]) == set(e["G"].nodes) and e["G"].is_binary() and e["S"].is_binary():
                        n = dtl.event_counts(e["G"], e["S"], e["m"])
                        ctx.sig((algo, pol.name, len(B.G.leaves()), len(B.S.leaves()), n["SPE"], n["DUP"], n["HGT"], min(n["LOSS"], 5),
                                 c["hgt"] == INF, c["floss"] == 0, c["sloss"] == 0, dtl.coherent(c, kind == "plain"), poly),
                                len(B.G.leaves()) >= 2 and n["DUP"] + n["HGT"] + n["LOSS"] > 0)
        finally:
            if hooks:
                hooks.detach()


def check_cli(ctx, case):
    B = bridge.Built(case)
    data = {"object_tree": B.G.newick(), "species_tree": B.S.newick(), "leaf_object_species": case["leafmap"]}
    if case.get("syn"):
        data["leaf_syntenies"] = case["syn"]
    r = cli.reconcile(data, case["algo"], "all", case["costs"])
    ctx.count("evaluations")
    if r["status"] not in (0, None):
        ctx.viol("C04.cli", case, f"reconcile exited with status {r['status']}: {r['stderr'][-300:]}")
        return
    kind = SC.kind_of(case["algo"])
    for line in [l for l in r["text"].splitlines() if l.strip()]:
        sol = cli.read_solution(json.loads(line))
        e = {"G": sol["G"], "S": sol["S"], "m": sol["m"], "lab": sol["lab"], "problems": sol["problems"], "ordered": sol["ordered"],
             "leafmap": sol["leafmap"], "leafsyn": sol["leafsyn"]}
        ctx.count("mon.cli_lines")
        why = judge_solution(e, kind, B.c)
        if why:
            ctx.viol("C04.cli", case, f"a solution line written by the command-line tool is {why}")
            break
    ctx.sig(("cli", case["algo"]), True)


def canaries(ctx):
    case = {"G": [["g0", "g1"], "g2"], "S": ["A", "B"], "leafmap": {"g0": "A", "g1": "A", "g2": "B"}, "costs": dict(gen.DEFAULT, hgt="inf"),
            "syn": {"g0": ["f0", "f1"], "g1": ["f0"], "g2": ["f0", "f1"]}}
    B = bridge.Built(case)
    m = dtl.lca_mapping(B.G, B.S, B.leafmap)
    inner = B.G.children[B.G.root][0]
    good = {v: ("f0", "f1") for v in B.G.nodes}
    good.update({v: tuple(B.syn[v]) for v in B.G.leaves()})

    def j(m_, lab, ordered):
        e = bridge.extract(B.output(m_, lab, ordered))
        return judge_solution(e, "ordered" if ordered else "unordered", B.c)

    ok = j(m, good, True) is None and j(m, {v: frozenset(x) for v, x in good.items()}, False) is None
    bad = dict(good); bad[inner] = ("f1", "f0")
    ok &= j(m, bad, True) is not None
    bad2 = dict(good); bad2[B.G.root] = ("f0",)
    ok &= j(m, bad2, True) is not None
    bad3 = {v: frozenset(x) for v, x in good.items()}; bad3[inner] = frozenset(["f1"])
    ok &= j(m, bad3, False) is not None
    hgt = dict(m); hgt[inner] = B.leafmap[B.G.leaves()[0]]; hgt[B.G.root] = hgt[inner]  # root at A with g2 at B: transfer, infinite cost
    ok &= j(hgt, good, True) is not None
    part = dict(m); del part[inner]
    ok &= judge_solution(bridge.extract(B.output(part, good, True)), "ordered", B.c) is not None
    ctx.count("canaries")
    if not ok:
        raise Inconclusive("C04 canary accepted")


def run(ctx, spec):
    rng = ctx.rng(spec["kind"])
    if spec["kind"] == "corpus":
        return corpus(ctx, spec)
    if spec["kind"] == "rand":
        for k in range(spec["count"]):
            fam = k % 3
            coherent_only = rng.random() < 0.35
            cost = gen.random_cost(rng, plain=fam == 0, coherent_only=coherent_only)
            if rng.random() < 0.4:
                cost = gen.noncoherent_cost(rng, plain=fam == 0)
            if rng.random() < 0.2:
                cost["sloss"] = 0
            if fam == 0:
                Gn, Sn, lm = gen.random_input(rng, 6, 6, min_obj=1)
                case = {"kind": "c04", "algos": ["lca", "thl"] + (["exh"] if len(lm) <= 5 else []), "G": Gn, "S": Sn, "leafmap": lm, "costs": cost}
            elif fam == 1:
                case = suite.random_super_case(rng, "ext_spfs", 5, 4, 4, cost=cost, consistent_p=0.9, root_order_p=0.2, min_obj=1)
                case.update(kind="c04", algos=["ext_spfs", "base_spfs"])
            else:
                case = suite.random_super_case(rng, "superdtl", 7, 5, 5, cost=cost, min_obj=1)
                case.update(kind="c04", algos=["superdtl", "base_uspfs"])
            case["named"] = rng.random() < 0.7
            case["costs"] = gen.tame(case["costs"], len(case["leafmap"]))
            check_case(ctx, case)
            if len(case["leafmap"]) >= 4:
                ctx.sample(case)
            if ctx.too_many():
                return
    elif spec["kind"] == "deep":
        for k in range(spec["count"]):
            ordered = k % 4 == 0
            big = spec.get("big") and not ordered
            if big:
                # long chains of ancestors (8-12 leaves, caterpillar-like), unordered: validity needs no oracle beyond the
                # gain nodes, so size is cheap here
                case = gen.deep_super_case(rng, ordered=False, min_obj=8, max_obj=12, max_fam=6, max_sp=5)
                case["costs"] = gen.tame(case["costs"], len(case["leafmap"]))
                ctx.count("big_cases")
            else:
                case = gen.deep_super_case(rng, ordered=ordered, max_obj=6 if ordered else 7, max_fam=4 if ordered else 5)
            if k % 3 == 0:
                case["costs"] = gen.tame(gen.random_cost(rng, coherent_only=False), len(case["leafmap"]))
            case.update(kind="c04", algos=["ext_spfs"] if ordered else ["superdtl", "base_uspfs"])
            check_case(ctx, case)
            ctx.count("deep_cases")
            if ctx.too_many():
                return
    elif spec["kind"] == "poly":
        from rv.props.C08 import random_poly_case

        for k in range(spec["count"]):
            algo = ["ext_spfs", "superdtl"][k % 2]
            case = random_poly_case(rng, algo, 5, 4)
            case["costs"] = gen.random_cost(rng, coherent_only=False)
            case.update(kind="c04", algos=[algo])
            check_case(ctx, case)
            if ctx.too_many():
                return
    else:
        algo = ALL_ALGOS[spec["i"] % 7]
        Gn, Sn, lm = gen.random_input(rng, 4, 3, min_obj=3)
        case = {"kind": "cli", "algo": algo, "G": Gn, "S": Sn, "leafmap": lm, "costs": gen.random_cost(rng, coherent_only=False)}
        if algo == "lca":
            case["costs"]["hgt"] = "inf"
        if SC.kind_of(algo) != "plain":
            case["syn"] = gen.random_syntenies(rng, list(lm), 3, ordered=SC.kind_of(algo) == "ordered", consistent_p=1.0)
        check_cli(ctx, case)


def replay(ctx, case):
    if case["kind"] == "corpus":
        return corpus(ctx, {"big": case.get("file", "").startswith("crispr")})
    if case["kind"] == "cli":
        return check_cli(ctx, case)
    if case.get("algo"):
        case = dict(case, algos=[case["algo"]])
    check_case(ctx, case)
