"""C09 Presentation-independence, determinism, sane response to costs (metamorphic relations)."""
import hashlib
import json
import math
import random

from rv import bridge, gen, solvercheck as SC, suite
from rv.bridge import ALL, ANY
from rv.core import Inconclusive, SkipCase, jsonable, skippable
from rv.props.C04 import snapshot
from rv.refmodel import dtl, trees as RT
from rv.refmodel.trees import T

INF = math.inf
META = {
    "rule": (
        "Each evaluation is one solver run (thl, ext_spfs, superdtl, base_spfs, base_uspfs; ALL, plus ANY for membership) on "
        "a random binary input beyond brute-force reach (up to 10 object leaves / 8 species / 4 families) or on a transform of "
        "it; the clade-keyed canonical optimal set and the minimum (recomputed by the reference evaluator) are compared "
        "across metamorphic relations: child reordering in both trees, bijective renaming of nodes and families (mapped "
        "back), outgroup species without objects (minimum equal; set equal when floss>0, superset when floss=0), scaling all "
        "costs by k in {2,3,7}, raising one unit cost inside the coherent region never lowers the minimum, second run on the "
        "same input object (same set, input unchanged), and identical results in fresh processes under different "
        "PYTHONHASHSEED values. Non-trivial: optimum > 0 and >=4 object leaves; distinct = (algorithm, sizes, optimum "
        "bucket, |optimal set| bucket, relation)."
    ),
    "floors": {
        "quick": {"evaluations": 1500, "mon.reorder": 100, "mon.rename": 100, "mon.outgroup": 100, "mon.scale": 100, "mon.monotone": 100, "mon.rerun": 100, "mon.reorder_inplace": 100, "mon.cross_process_cases": 20},
        "thorough": {"evaluations": 40000, "mon.reorder": 3000, "mon.rename": 3000, "mon.outgroup": 3000, "mon.scale": 3000, "mon.monotone": 3000, "mon.rerun": 3000, "mon.reorder_inplace": 3000, "mon.cross_process_cases": 150},
    },
    "exhaustive": {"quick": False, "thorough": False},
    "assumptions": ["relations are metamorphic: they do not need an oracle for the optimum itself (C01-C03 provide that on small inputs)", "cost vectors inside the coherent region before and after each change"],
    "timeout": {"quick": 420, "thorough": 7200},
}

ALGOS = ["thl", "ext_spfs", "superdtl", "thl", "ext_spfs", "superdtl", "base_spfs", "base_uspfs"]
MAX_SET = 400


def plan(tier, seed):
    q = tier == "quick"
    n = 16 if q else 28
    specs = [{"kind": "meta", "i": i, "count": 40 if q else 220} for i in range(n)]
    specs += [{"kind": "mirror_exh", "i": i, "n": 8 if q else 16, "ncost": 2 if q else 6} for i in range(8 if q else 16)]
    # many small object trees on WIDE species trees (6-9 leaves), each against its mirrored presentations
    specs += [{"kind": "mirror_wide", "i": i, "count": 250 if q else 1500} for i in range(16)]
    specs += [{"kind": "mirror_small", "i": i, "count": 120 if q else 900} for i in range(16)]
    # determinism batch: the same cases in fresh processes with different hash seeds
    for hs in ([0, 1, 2, 12345] if q else [0, 1, 2, 3, 77, 4242, 31337, 99991, 5, 6, 7, 8]):
        specs.append({"kind": "det", "batch": 24 if q else 200, "_hashseed": hs, "_canaries": False})
    return specs


# ----------------------------------------------------------------- observing
def solve(case, policy=ALL, B=None):
    """Run the real solver; -> dict(min, set (frozenset of canon) | None if too large, exc)"""
    B = B or bridge.Built(case)
    obs = SC.call(case["algo"], B.inp, policy)
    if obs.exc is not None:
        return {"exc": obs.exc, "min": None, "set": None, "B": B, "obs": obs}
    kind = SC.kind_of(case["algo"])
    costs = {SC.model_cost(e, B.c, kind) for e in obs.ext}
    mn = min(costs) if costs else INF
    cs = SC.canon_set(obs)
    return {"exc": None, "min": mn, "set": frozenset(cs), "n": len(cs), "costs": costs, "B": B, "obs": obs}


def digest(res):
    if res["exc"]:
        return "EXC " + res["exc"].split(" @ ")[0]
    items = sorted(json.dumps(jsonable(sorted(x, key=repr)), sort_keys=True) for x in res["set"] if x is not None)
    return hashlib.sha1(json.dumps([repr(res["min"]), items]).encode()).hexdigest()


# ---------------------------------------------------------------- transforms
def reorder(rng, nested):
    if isinstance(nested, str):
        return nested
    ch = [reorder(rng, c) for c in nested]
    if rng.random() < 0.6:
        ch.reverse()
    return ch


def rename_tree(nested, leafmap_fn, prefix, rng):
    """Rename leaves through leafmap_fn and give every internal node a fresh random name."""
    used = set()

    def fresh():
        while True:
            nm = prefix + "".join(rng.choice("abcdefghijklmnopqrstuvwxyz0123456789") for _ in range(rng.randint(1, 4)))
            if nm not in used:
                used.add(nm)
                return nm

    def go(x):
        if isinstance(x, str):
            return leafmap_fn(x)
        return {"name": fresh(), "ch": [go(c) for c in x]}

    return go(nested)


def map_canon(cset, fg, fs, ff):
    """Apply leaf-name / species-name / family bijections to a canonical set."""
    out = set()
    for sol in cset:
        items = []
        for clade, sp, syn in sol:
            c2 = tuple(sorted(fg(x) for x in clade))
            s2 = tuple(sorted(fs(x) for x in sp))
            y2 = None if syn is None else tuple(ff(x) for x in syn)
            items.append((c2, s2, y2))
        out.add(frozenset(items))
    return frozenset(out)


def canon_sorted_syn(cset):
    """Unordered syntenies are compared as sets: re-sort after family renaming."""
    out = set()
    for sol in cset:
        out.add(frozenset((c, s, None if y is None else tuple(sorted(y))) for c, s, y in sol))
    return frozenset(out)


def scale(c, k):
    return {n: (v if v == "inf" else v * k) for n, v in c.items()}


def num_cost(c):
    return {k: (INF if v == "inf" else v) for k, v in c.items()}


def random_case(rng, algo, max_obj=10, max_sp=8, max_fam=4):
    kind = SC.kind_of(algo)
    for _ in range(50):
        if kind == "plain":
            Gn, Sn, lm = gen.random_input(rng, max_obj, max_sp, min_obj=3, min_sp=2)
            case = {"algo": algo, "G": Gn, "S": Sn, "leafmap": lm, "costs": gen.random_cost(rng, plain=False)}
        else:
            mo = max_obj if kind == "unordered" else min(max_obj, 8)
            case = suite.random_super_case(rng, algo, mo, max_sp, max_fam, consistent_p=1.0, min_obj=3)
            case["algo"] = algo
        if case["costs"]["floss"] == 0 and rng.random() < 0.7:
            case["costs"]["floss"] = 1  # floss=0 makes optimal sets explode; keep some
        case["costs"] = gen.tame(case["costs"], len(case["leafmap"]))
        if dtl.coherent(num_cost(case["costs"])):
            return case
    return case


# ------------------------------------------------------------------ relations
@skippable
def check_relations(ctx, case, rng):
    algo = case["algo"]
    kind = SC.kind_of(algo)
    base = solve(case)
    ctx.count("evaluations")
    if base["exc"]:
        ctx.viol("C09.total", case, f"{algo} raised: {base['exc']}")
        return
    if base["n"] > MAX_SET:
        ctx.count("skipped_large_set")
        return
    B = base["B"]
    norm = canon_sorted_syn(base["set"]) if kind == "unordered" else base["set"]

    def compare(rel, other_case, got_set, got_min, want_set=norm, want_min=base["min"], superset_ok=False):
        ctx.count(f"mon.{rel}")
        vc = dict(case, relation=rel, transformed=other_case)
        if got_min != want_min:
            ctx.viol(f"C09.{rel}", vc, f"{algo}: minimum {want_min} became {got_min} under '{rel}'")
            return
        if got_set is None:
            return
        if superset_ok:
            if not want_set <= got_set:
                ctx.viol(f"C09.{rel}", vc, f"{algo}: {len(want_set - got_set)} optimal solution(s) disappeared under '{rel}'")
        elif got_set != want_set:
            ctx.viol(f"C09.{rel}", vc, f"{algo}: optimal set changed under '{rel}' ({len(want_set)} -> {len(got_set)} solutions, {len(want_set ^ got_set)} differ)")

    # 1. second run on the same input object + input unchanged
    snap = snapshot(B.inp)
    again = solve(case, B=B)
    ctx.count("evaluations")
    if again["exc"]:
        ctx.viol("C09.rerun", case, f"{algo}: second run on the same input raised: {again['exc']}")
    else:
        compare("rerun", None, canon_sorted_syn(again["set"]) if kind == "unordered" else again["set"], again["min"])
        if snapshot(B.inp) != snap:
            ctx.viol("C09.rerun", case, f"{algo}: the input object was modified by a run")
        anyr = solve(case, ANY, B=B)
        ctx.count("evaluations")
        if anyr["exc"] or anyr["n"] != (1 if base["n"] else 0) or not anyr["set"] <= base["set"]:
            ctx.viol("C09.rerun", case, f"{algo}: the ANY answer is not a member of the ALL set")

    # 2. child reordering
    c2 = dict(case, G=reorder(rng, case["G"]), S=reorder(rng, case["S"]))
    r = solve(c2)
    ctx.count("evaluations")
    if r["exc"]:
        ctx.viol("C09.reorder", dict(case, transformed=c2), f"{algo} raised after child reordering: {r['exc']}")
    else:
        compare("reorder", c2, canon_sorted_syn(r["set"]) if kind == "unordered" else r["set"], r["min"])

    # 2b. child reordering done in place on the SAME tree objects, which are then indexed again (history)
    B.reindexed_inplace(rng)
    r = solve(case, B=B)
    ctx.count("evaluations")
    if r["exc"]:
        ctx.viol("C09.reorder_inplace", case, f"{algo} raised after an in-place child reordering of trees used before: {r['exc']}")
    else:
        compare("reorder_inplace", None, canon_sorted_syn(r["set"]) if kind == "unordered" else r["set"], r["min"])

    # 3. bijective renaming of nodes and families
    gl = sorted(case["leafmap"])
    sl = sorted({x for x in _leaves(case["S"])})
    fams = sorted({f for s in case.get("syn", {}).values() for f in s} | set(case.get("root_order") or ())) if case.get("syn") else []
    g2 = dict(zip(gl, rng.sample([f"x{i}y" for i in range(len(gl) + 3)], len(gl))))
    s2 = dict(zip(sl, rng.sample([f"Sp{i}" for i in range(len(sl) + 3)] + ["Q", "zeta"], len(sl))))
    f2 = dict(zip(fams, rng.sample([f"fam{i}" for i in range(len(fams) + 2)] + ["b10", "b9", "a", "Z"], len(fams))))
    c3 = {
        "algo": algo,
        "G": rename_tree(case["G"], lambda x: g2[x], "n", rng),
        "S": rename_tree(case["S"], lambda x: s2[x], "a", rng),
        "leafmap": {g2[g]: s2[s] for g, s in case["leafmap"].items()},
        "costs": case["costs"],
    }
    if case.get("syn"):
        c3["syn"] = {g2[g]: [f2[f] for f in fs] for g, fs in case["syn"].items()}
        if kind == "unordered":
            c3["syn"] = {g: sorted(fs) for g, fs in c3["syn"].items()}
    if case.get("root_order"):
        c3["root_order"] = [f2[f] for f in case["root_order"]]
    r = solve(c3)
    ctx.count("evaluations")
    if r["exc"]:
        ctx.viol("C09.rename", dict(case, transformed=c3), f"{algo} raised after renaming: {r['exc']}")
    else:
        ig = {v: k for k, v in g2.items()}
        isp = {v: k for k, v in s2.items()}
        iff = {v: k for k, v in f2.items()}
        back = map_canon(r["set"], lambda x: ig[x], lambda x: isp[x], lambda x: iff[x])
        if kind == "unordered":
            back = canon_sorted_syn(back)
        compare("rename", c3, back, r["min"])

    # 4. outgroup species without objects
    c4 = dict(case, S=[case["S"], "Zout"] if rng.random() < 0.5 else ["Zout", case["S"]])
    r = solve(c4)
    ctx.count("evaluations")
    if r["exc"]:
        ctx.viol("C09.outgroup", dict(case, transformed=c4), f"{algo} raised after adding an outgroup: {r['exc']}")
    else:
        got = canon_sorted_syn(r["set"]) if kind == "unordered" else r["set"]
        compare("outgroup", c4, got if r["n"] <= 4 * MAX_SET else None, r["min"], superset_ok=num_cost(case["costs"])["floss"] == 0)

    # 5. scaling
    k = rng.choice([2, 3, 7, 7, 10**6, 2**64 + 1, 3 * 10**30])  # also factors that push every total past 2**31, 2**53, 2**63
    c5 = dict(case, costs=scale(case["costs"], k))
    r = solve(c5)
    ctx.count("evaluations")
    if r["exc"]:
        ctx.viol("C09.scale", dict(case, transformed=c5), f"{algo} raised after scaling the costs: {r['exc']}")
    else:
        compare("scale", c5, canon_sorted_syn(r["set"]) if kind == "unordered" else r["set"], r["min"], want_min=base["min"] * k if base["min"] != INF else INF)

    # 6. raising one unit cost never lowers the minimum
    for _ in range(2):
        which = rng.choice(["spe", "dup", "hgt", "floss", "sloss"])
        c6c = dict(case["costs"])
        if c6c[which] == "inf":
            continue
        c6c[which] += rng.choice([1, 1, 2, 3])
        if not dtl.coherent(num_cost(c6c)):
            continue
        c6 = dict(case, costs=c6c)
        r = solve(c6)
        ctx.count("evaluations")
        ctx.count("mon.monotone")
        if r["exc"]:
            ctx.viol("C09.monotone", dict(case, transformed=c6), f"{algo} raised after raising {which}: {r['exc']}")
        elif r["min"] < base["min"]:
            ctx.viol("C09.monotone", dict(case, relation="monotone", transformed=c6), f"{algo}: raising the {which} cost lowered the minimum from {base['min']} to {r['min']}")
    bucket = lambda n: 0 if n == 0 else (1 if n == 1 else (2 if n <= 4 else (3 if n <= 20 else 4)))
    ctx.sig((algo, len(B.G.leaves()), len(B.S.leaves()), base["min"] if base["min"] < 12 else 12, bucket(base["n"])), base["min"] not in (0, INF) and len(B.G.leaves()) >= 4)
    if len(B.G.leaves()) >= 6:
        ctx.sample(case)


def _leaves(nested):
    if isinstance(nested, str):
        yield nested
    else:
        for c in nested:
            yield from _leaves(c)


def canaries(ctx):
    a = frozenset([frozenset([(("g0",), ("A",), ("f1", "f0"))])])
    ok = canon_sorted_syn(a) == frozenset([frozenset([(("g0",), ("A",), ("f0", "f1"))])])
    b = map_canon(a, lambda x: "h" + x, lambda x: x.lower(), lambda x: x.upper())
    ok &= b == frozenset([frozenset([(("hg0",), ("a",), ("F1", "F0"))])])
    ok &= scale({"spe": 1, "hgt": "inf"}, 3) == {"spe": 3, "hgt": "inf"}
    r1 = {"exc": None, "min": 3, "set": a}
    r2 = {"exc": None, "min": 3, "set": b}
    ok &= digest(r1) != digest(r2) and digest(r1) == digest(dict(r1))
    ctx.count("canaries")
    if not ok:
        raise Inconclusive("C09 canary failed")


def mirror_all(nested):
    return nested if isinstance(nested, str) else [mirror_all(c) for c in reversed(nested)]


def mirror_exh(ctx, spec):
    """Bounded-exhaustive child-order relation: every 4x4 input (canonical child order) against its three fully
    mirrored presentations, loss-heavy cost vectors (a deep placement ties with a transfer), plain DTL solver."""
    from rv.props.C05 import LOSS_HEAVY

    idx = 0
    for Gn, Sn, lm in gen.exhaustive_inputs(4, 4, mirrored=False):
        if len(lm) < 3 or isinstance(Sn, str):
            continue
        for c in LOSS_HEAVY[: spec["ncost"]]:
            idx += 1
            if idx % spec["n"] != spec["i"]:
                continue
            case = {"algo": "thl", "G": Gn, "S": Sn, "leafmap": lm, "costs": c}
            base = solve(case)
            ctx.count("evaluations")
            if base["exc"]:
                ctx.viol("C09.total", case, f"thl raised: {base['exc']}")
                continue
            for name, g2, s2 in (("species", Gn, mirror_all(Sn)), ("object", mirror_all(Gn), Sn), ("both", mirror_all(Gn), mirror_all(Sn))):
                c2 = dict(case, G=g2, S=s2)
                r = solve(c2)
                ctx.count("evaluations")
                ctx.count("mon.reorder")
                ctx.count("mon.mirror_exh")
                if r["exc"]:
                    ctx.viol("C09.reorder", dict(case, relation="reorder", transformed=c2), f"thl raised after mirroring: {r['exc']}")
                elif r["min"] != base["min"] or r["set"] != base["set"]:
                    ctx.viol("C09.reorder", dict(case, relation="reorder", transformed=c2),
                             f"thl: mirroring the children of the {name} tree(s) changed the result (min {base['min']} -> {r['min']}, {len(base['set'])} -> {len(r['set'])} optimal solutions, {len(base['set'] ^ r['set'])} differ)")
            ctx.sig(("mirror", len(lm), base["min"], min(base["n"], 9), c["floss"], c["dup"]), base["n"] >= 2)
            if ctx.too_many():
                return


def mirror_wide(ctx, spec):
    """Child-order relation on wide species trees: a transfer recipient several levels below the donor, in another
    branch, written to its left or to its right - placements that 3-5 species cannot express."""
    small = spec["kind"] == "mirror_small"
    rng = ctx.rng(spec["kind"])
    for k in range(spec["count"]):
        algo = ("superdtl", "base_uspfs", "ext_spfs", "superdtl", "base_spfs")[k % 5] if small else ("ext_spfs", "superdtl", "thl", "ext_spfs")[k % 4]
        kind = SC.kind_of(algo)
        if kind == "plain":
            Gn, Sn, lm = gen.random_input(rng, 5, 9, min_obj=3, min_sp=6)
            case = {"algo": algo, "G": Gn, "S": Sn, "leafmap": lm, "costs": gen.random_cost(rng, plain=False)}
        elif small:
            # few species, 4-6 objects, 3-4 families: which CHILD keeps the families inherited from above, which one is
            # the partial copy - the two arms of every duplication/transfer rule, exchanged by the mirror
            case = suite.random_super_case(rng, algo, 6 if kind == "unordered" else 5, 3, 4 if kind == "unordered" else 3, consistent_p=1.0, min_obj=4)
            case["algo"] = algo
        else:
            case = suite.random_super_case(rng, algo, 4, 9, 2, consistent_p=1.0, min_obj=3, min_sp=6)
            case["algo"] = algo
        if case["costs"]["floss"] == 0:
            case["costs"]["floss"] = 1
        if not dtl.coherent(num_cost(case["costs"])):
            continue
        try:
            base = solve(case)
            ctx.count("evaluations")
            if base["exc"]:
                ctx.viol("C09.total", case, f"{algo} raised: {base['exc']}")
                continue
            if base["n"] > MAX_SET:
                continue
            norm = canon_sorted_syn(base["set"]) if kind == "unordered" else base["set"]
            variants = (("object", mirror_all(case["G"]), case["S"]), ("object (some nodes)", reorder(rng, case["G"]), case["S"])) if small else \
                (("species", case["G"], mirror_all(case["S"])), ("both", mirror_all(case["G"]), mirror_all(case["S"])))
            for name, g2, s2 in variants:
                c2 = dict(case, G=g2, S=s2)
                r = solve(c2)
                ctx.count("evaluations")
                ctx.count("mon.reorder")
                ctx.count("mon." + spec["kind"])
                got = None if r["exc"] else (canon_sorted_syn(r["set"]) if kind == "unordered" else r["set"])
                if r["exc"]:
                    ctx.viol("C09.reorder", dict(case, relation="reorder", transformed=c2), f"{algo} raised after mirroring: {r['exc']}")
                elif r["min"] != base["min"] or got != norm:
                    ctx.viol("C09.reorder", dict(case, relation="reorder", transformed=c2),
                             f"{algo}: mirroring the children of the {name} tree(s) changed the result (min {base['min']} -> {r['min']}, {len(norm)} -> {len(got)} optimal solutions, {len(norm ^ got)} differ)")
        except SkipCase:
            ctx.count("skipped_budget")
            continue
        ctx.sig((spec["kind"], algo, len(case["leafmap"]), base["min"] if base["min"] < 12 else 12, min(base["n"], 9)), base["n"] >= 2)
        if ctx.too_many():
            return


def run(ctx, spec):
    if spec["kind"] in ("mirror_wide", "mirror_small"):
        return mirror_wide(ctx, spec)
    if spec["kind"] == "mirror_exh":
        return mirror_exh(ctx, spec)
    if spec["kind"] == "meta":
        rng = ctx.rng("meta")
        for k in range(spec["count"]):
            algo = ALGOS[(k + spec["i"]) % len(ALGOS)]
            small = k % 4 == 0
            case = random_case(rng, algo, 6 if small else 10, 5 if small else 8, 4)
            if k % 16 == 3 and SC.kind_of(algo) == "plain":
                Gc, Sc, lmc, cc = gen.chain_case(rng)
                case = {"algo": algo, "G": Gc, "S": Sc, "leafmap": lmc, "costs": cc}
                ctx.count("chain_cases")
            if k % 8 == 5:
                # a multifurcating input for an extended solver: the relations hold for it as well (the optimum and the
                # optimal set over all refinements must not depend on the order in which a node's children are written)
                from rv.refmodel import trees as RT

                palgo = "superdtl" if k % 16 == 5 else "ext_spfs"
                no, ns = rng.randint(3, 5), rng.randint(2, 4)
                Gp = RT.random_multifurcating(rng, gen.object_labels(no), max_poly=1, max_arity=4)
                Sp = RT.random_binary(rng, gen.species_labels(ns)) if rng.random() < 0.6 or ns < 3 else RT.random_multifurcating(rng, gen.species_labels(ns), max_poly=1, max_arity=3)
                lmp = {g: rng.choice(gen.species_labels(ns)) for g in gen.object_labels(no)}
                cst = gen.random_cost(rng, plain=False)
                if cst["floss"] == 0:
                    cst["floss"] = 1
                if not isinstance(Sp, str) and dtl.coherent(num_cost(cst)):
                    case = {"algo": palgo, "kind": "super", "G": Gp, "S": Sp, "leafmap": lmp, "costs": cst,
                            "syn": gen.random_syntenies(rng, list(lmp), 3, ordered=palgo == "ext_spfs", consistent_p=1.0)}
                    ctx.count("polytomy_cases")
            check_relations(ctx, case, rng)
            if ctx.too_many():
                return
    else:
        # identical batch in every process (does not depend on the shard number or on hashing)
        rng = random.Random(f"C09-det-{ctx.seed}")
        batch = []
        for k in range(spec["batch"]):
            algo = ALGOS[k % len(ALGOS)]
            batch.append((k, algo, random_case(rng, algo, 8, 6, 4)))
        # history independence: every process runs the batch in another order (as generated, reversed, shuffled), so a
        # result that depends on what was computed earlier in the process shows up as a digest mismatch
        import os

        hs = os.environ.get("PYTHONHASHSEED", "0")
        order_kind = {"0": "as generated", "1": "reversed"}.get(hs, "shuffled")
        if order_kind == "reversed":
            batch.reverse()
        elif order_kind == "shuffled":
            random.Random(f"order-{hs}").shuffle(batch)
        ctx.notes.append(f"determinism batch order under PYTHONHASHSEED={hs}: {order_kind}")
        for k, algo, case in batch:
            try:
                res = solve(case)
            except SkipCase:
                ctx.count("skipped_budget")
                continue
            ctx.count("evaluations")
            if res["exc"] is None and res["n"] > 4 * MAX_SET:
                continue
            ctx.digests[f"det{k}"] = {"digest": digest(res), "case": case}
            try:
                anyr = solve(case, ANY, B=res["B"])
            except SkipCase:
                ctx.count("skipped_budget")
                continue
            ctx.count("evaluations")
            if res["exc"] is None and (anyr["exc"] or not anyr["set"] <= res["set"]):
                ctx.viol("C09.determinism", case, f"{algo}: the ANY answer is not inside the ALL set in this process")
            ctx.sig(("det", algo, k), True)


def replay(ctx, case):
    if case.get("kind") == "determinism":
        res = solve(case)
        ctx.digests["replay"] = {"digest": digest(res), "case": {k: v for k, v in case.items() if k != "kind"}}
        return
    base = {k: v for k, v in case.items() if k not in ("relation", "transformed")}
    rng = random.Random(0)
    for attempt in range(6):
        check_relations(ctx, base, random.Random(attempt))
        if ctx.violations:
            break
