"""C13 A diagram shows exactly the events the cost model counts."""
import itertools
import json
import os

from rv import bridge, gen, render_stub
from rv.core import Inconclusive
from rv.props import _render as R
from rv.refmodel import dtl, tikz

META = {
    "rule": (
        "Each evaluation is one layout.compute + tikz.render of a valid (super-)reconciliation (all valid reconciliations of "
        "small inputs from the independent enumerator, random ones up to 10 leaves, the repository's fixtures; labelled and "
        "unlabelled; both orientations; node sizes from a stub TeX measurer, 1..100 units, or from a fake engine speaking the "
        "$$$w,h,d protocol so that tex.measure's own parsing runs). Oracle: exactly one non-loss branch per object node, in "
        "the species it is mapped to, of the evaluator's kind; loss branches per species = model full losses per species, "
        "kept child on the right side; one transfer arrow per transfer ending at the anchor of the transferred child; "
        "one-to-one correspondence between layout branches and TikZ \\node statements; picture cost = evaluator cost; each "
        "rectangle has the size measured for its own snippet. Non-trivial: >=1 duplication, transfer or loss; distinct = "
        "(sizes, event counts, orientation, labelled, engine)."
    ),
    "floors": {
        "quick": {"evaluations": 1500, "mon.events": 1500, "mon.transfer_cases": 200, "mon.loss_cases": 300, "mon.fake_engine": 100, "fixtures": 11},
        "thorough": {"evaluations": 40000, "mon.events": 40000, "mon.transfer_cases": 5000, "mon.loss_cases": 8000, "mon.fake_engine": 3000, "fixtures": 11},
    },
    "exhaustive": {"quick": True, "thorough": True},
    "space": {"quick": "all valid reconciliations of all inputs <=3x3 (both orientations) + random up to 10 leaves + fixtures", "thorough": "all valid reconciliations of all inputs <=4x3 and sampled 5x5 + random up to 10 leaves + fixtures"},
    "assumptions": ["no TeX engine in the sandbox: sizes come from a stub measurer / fake engine"],
    "timeout": {"quick": 420, "thorough": 7200},
}


def plan(tier, seed):
    q = tier == "quick"
    n = 16 if q else 32
    specs = [{"kind": "exh", "i": i, "n": n, "max_obj": 3 if q else 4, "max_sp": 3, "nrand": 110 if q else 400} for i in range(n)]
    specs.append({"kind": "fixtures"})
    return specs


def check_scene(ctx, prop, scene, rng, monitors, perturb=True):
    from superrec2.render.model import Orientation

    for orient in ("VERTICAL", "HORIZONTAL"):
        params = R.perturbed_params(rng if perturb and rng.random() < 0.5 else None, orient)
        stub = render_stub.Stub(swap=False, lo=1, hi=100 if rng.random() < 0.5 else 20)
        engine = rng.random() < 0.2
        case = scene.full_case(orientation=orient)
        try:
            lay, code = R.draw(scene, params, stub, engine=engine)
        except Exception as exc:  # noqa: BLE001
            ctx.viol(f"{prop}.crash", case, f"layout/render raised {type(exc).__name__}: {exc}")
            continue
        L = R.extract_layout(scene, lay)
        fails, P = R.judge_events(scene, L, code, params, stub)
        ctx.count("evaluations")
        ctx.count("mon.events")
        if engine:
            ctx.count("mon.fake_engine")
        n = dtl.event_counts(scene.G, scene.S, scene.m)
        if n["HGT"]:
            ctx.count("mon.transfer_cases")
        if n["LOSS"]:
            ctx.count("mon.loss_cases")
        for mon, msg in fails:
            if mon in monitors:
                ctx.viol(f"{prop}.{mon}", case, msg)
        ctx.sig((len(scene.G.leaves()), len(scene.S.leaves()), n["SPE"], n["DUP"], n["HGT"], min(n["LOSS"], 6), orient, scene.lab is not None, engine), n["DUP"] + n["HGT"] + n["LOSS"] > 0)
        if n["HGT"] and n["LOSS"] and len(scene.G.leaves()) >= 3:
            ctx.sample(case)


MONITORS = ("events", "losses", "transfers", "tikz", "measure")


def fixtures(ctx, prop, fn):
    from superrec2.model.reconciliation import ReconciliationOutput, SuperReconciliationOutput

    repo = os.environ.get("VERIF_REPO", "/repo")
    base = os.path.join(repo, "tests", "render", "fixtures")
    rng = ctx.rng("fixtures")
    for name in sorted(os.listdir(base)):
        path = os.path.join(base, name, "input.json")
        if not os.path.exists(path):
            continue
        data = json.load(open(path))
        out = (SuperReconciliationOutput if "syntenies" in data else ReconciliationOutput).from_dict(data)
        scene = R.Scene.from_output(out, {"kind": "fixture", "name": name})
        ctx.count("fixtures")
        fn(scene, rng)


def canaries(ctx):
    case = {"kind": "render", "G": [["A_0", "A_1"], "B_2"], "S": [["A", "B"], "C"], "leafmap": {"A_0": "A", "A_1": "A", "B_2": "B"}, "costs": dict(gen.DEFAULT), "rseed": 1}
    scene = R.Scene(case, mapping=None)
    scene.m = dtl.lca_mapping(scene.G, scene.S, scene.leafmap)
    scene = R.Scene(dict(case, mapping={str(k): v for k, v in scene.m.items()}))
    stub = render_stub.Stub()
    params = R.perturbed_params(None, "VERTICAL")
    lay, code = R.draw(scene, params, stub)
    L = R.extract_layout(scene, lay)
    fails, P = R.judge_events(scene, L, code, params, stub)
    ok = not fails
    # drop a loss marker / change a kind / remove a node statement / wrong size
    import copy

    L2 = {s: dict(sl, branches=[dict(b) for b in sl["branches"]]) for s, sl in L.items()}
    for s, sl in L2.items():
        for b in sl["branches"]:
            if b["kind"] == "DUPLICATION":
                b["kind"] = "SPECIATION"
    ok &= any(m == "events" for m, _ in R.judge_events(scene, L2, code, params, stub)[0])
    L3 = {s: dict(sl, branches=[dict(b) for b in sl["branches"] if b["kind"] != "FULL_LOSS"]) for s, sl in L.items()}
    if any(b["kind"] == "FULL_LOSS" for sl in L.values() for b in sl["branches"]):
        ok &= any(m == "losses" for m, _ in R.judge_events(scene, L3, code, params, stub)[0])
    code2 = "\n".join(l for l in code.split("\n") if not l.startswith("\\node[duplication"))
    ok &= any(m == "tikz" for m, _ in R.judge_events(scene, L, code2, params, stub)[0])
    ok &= any(m == "tikz" for m, _ in R.judge_events(scene, L, code.replace("};", "}", 1), params, stub)[0])
    stub2 = render_stub.Stub(lo=2, hi=50)
    ok &= any(m == "measure" for m, _ in R.judge_events(scene, L, code, params, stub2)[0])
    ctx.count("canaries")
    if not ok:
        raise Inconclusive("C13 canary accepted")


def run(ctx, spec):
    if spec["kind"] == "fixtures":
        return fixtures(ctx, "C13", lambda scene, rng: check_scene(ctx, "C13", scene, rng, MONITORS))
    rng = ctx.rng("c13")
    idx = 0
    for Gn, Sn, lm in gen.exhaustive_inputs(spec["max_obj"], spec["max_sp"]):
        idx += 1
        if idx % spec["n"] != spec["i"]:
            continue
        # leaf names must follow <species>_<id>
        ren = {g: f"{s}_{g[1:]}" for g, s in lm.items()}
        Gr = _rename(Gn, ren)
        case = {"kind": "render", "G": Gr, "S": Sn, "leafmap": {ren[g]: s for g, s in lm.items()}, "costs": dict(gen.DEFAULT), "rseed": rng.randrange(10**9)}
        base = R.Scene(dict(case, mapping=None) if False else case)
        maps = list(dtl.all_recs(base.G, base.S, base.leafmap))
        if len(maps) > 60:
            maps = rng.sample(maps, 60)
        for k, m in enumerate(maps):
            c2 = dict(case, mapping={str(a): b for a, b in m.items()})
            if k % 5 == 1:
                c2["colors"] = True
            if k % 3 == 0 and len(lm) >= 2:
                c2["syn"] = gen.random_syntenies(rng, list(c2["leafmap"]), 3, ordered=True, consistent_p=1.0)
                c2["unordered"] = k % 2 == 0
            check_scene(ctx, "C13", R.Scene(c2), rng, MONITORS)
            if ctx.too_many():
                return
    for _ in range(spec["nrand"]):
        case = R.make_case(rng, 10, 6, colors=rng.random() < 0.4)
        check_scene(ctx, "C13", R.Scene(case), rng, MONITORS)
        if ctx.too_many():
            return


def _rename(nested, ren):
    if isinstance(nested, str):
        return ren[nested]
    return [_rename(c, ren) for c in nested]


def replay(ctx, case):
    import random

    if case.get("kind") == "fixture":
        return fixtures(ctx, "C13", lambda scene, rng: check_scene(ctx, "C13", scene, rng, MONITORS))
    base = {k: v for k, v in case.items() if k != "orientation"}
    for seed in range(4):
        check_scene(ctx, "C13", R.Scene(base), random.Random(seed), MONITORS)
