"""C11 Serialised results read back to the same reconciliation."""
import json
import math

from rv import bridge, gen, solvercheck as SC, suite
from rv.bridge import ALL
from rv.core import Inconclusive
from rv.props import C06
from rv.refmodel import dtl, label, trees as RT
from rv.refmodel.trees import T

INF = math.inf
META = {
    "rule": (
        "Each evaluation is one round trip X.from_dict(json.loads(json.dumps(x.to_dict()))) of a ReconciliationInput, "
        "SuperReconciliationInput, ReconciliationOutput or SuperReconciliationOutput built by the harness through the ete3 "
        "API (unique node names over letters, digits, underscores incl. '1', 'e5', 'O0', 'S1'; NHX colours on arbitrary "
        "nodes; float inf transfer cost) or returned by a real solver. Both objects are read by a harness-side structural "
        "extractor (trees as nested (name, colour, children) with child order, mappings by name, costs, ordered flag, events, "
        "cost) which must agree, the parsed trees must equal the model trees the harness generated, and a second to_dict() "
        "must equal the first. Non-trivial: >=3 object leaves; distinct = (class, sizes, colours?, inf?, names style, source)."
    ),
    "floors": {
        "quick": {"evaluations": 1500, "mon.roundtrip": 1500, "mon.reparse_after_edit": 1500, "solver_outputs": 200, "colored": 200, "inf_cost": 100},
        "thorough": {"evaluations": 60000, "mon.roundtrip": 60000, "mon.reparse_after_edit": 60000, "solver_outputs": 8000, "colored": 8000, "inf_cost": 4000},
    },
    "exhaustive": {"quick": False, "thorough": False},
    "assumptions": ["node names are unique within each tree and drawn from letters, digits and underscores, as the property states"],
    "timeout": {"quick": 420, "thorough": 7200},
}

SPECIAL = ["1", "e5", "O0", "S1", "O1", "S0", "_", "a_b", "X_1", "007", "E", "inf", "nan", "x1e3", "A"]
# punctuation that the pinned code round-trips faithfully (probed: everything printable except space, '=', and the Newick
# metacharacters); primed names come in pairs, because quote characters are what a "quoted labels" reader pairs up
PUNCT = ["a'", "b'", "c''", 'q"x', 'r"', "x-1", "y.2", "p+q", "n|m", "h#1", "w@z", "k!", "$v", "t%", "u&u", "s*", "c~d", "e`f", "<g>", "h?", "i/j", "{k}", "l^m",
         "gene%3AFAM7", "p%2Cq", "t%28x%29", "u%", "v%41", "w%3a", "%5Bz%5D"]
ALPHA = "abcdefghijklmnopqrstuvwxyzABCDEFGHIJKLMNOPQRSTUVWXYZ0123456789_"


def plan(tier, seed):
    q = tier == "quick"
    return [{"kind": "rt", "i": i, "count": 120 if q else 700} for i in range(16 if q else 32)]


def rand_names(rng, n, style):
    names = set()
    pool = list(SPECIAL)
    rng.shuffle(pool)
    while len(names) < n:
        if style == "special" and pool and rng.random() < 0.5:
            nm = pool.pop()
        elif style == "punct":
            nm = rng.choice(PUNCT) if rng.random() < 0.6 or len(names) > len(PUNCT) else rng.choice(PUNCT[:5])
            if nm in names:
                nm = nm + str(len(names))
        elif style == "plain":
            nm = rng.choice("abcdefghxyz") + str(len(names))
        else:
            nm = "".join(rng.choice(ALPHA) for _ in range(rng.randint(1, 6)))
        names.add(nm)
    names = list(names)
    rng.shuffle(names)
    return names


def decorate(rng, nested, names, colors_p):
    """nested lists with leaf strings -> dict form with a name (and maybe a colour) on every node."""
    it = iter(names)

    def go(x):
        d = {"name": next(it), "ch": [] if isinstance(x, str) else [go(c) for c in x]}
        if rng.random() < colors_p:
            d["color"] = "".join(rng.choice("0123456789ABCDEF") for _ in range(6))
        return d

    return go(nested)


def count_nodes(nested):
    return 1 if isinstance(nested, str) else 1 + sum(count_nodes(c) for c in nested)


def build_ete(d):
    from ete3 import Tree

    node = Tree()
    node.name = d["name"]
    if d.get("color"):
        node.add_feature("color", d["color"])
    for c in d["ch"]:
        node.add_child(build_ete(c))
    return node


def struct_tree(node):
    return (node.name, getattr(node, "color", None), tuple(struct_tree(c) for c in node.children))


def struct_model(d):
    return (d["name"], d.get("color"), tuple(struct_model(c) for c in d["ch"]))


def struct_of(x):
    """Harness-side structural extraction of an input or output object."""
    inp = x.input if hasattr(x, "object_species") else x
    s = {
        "class": type(x).__name__,
        "G": struct_tree(inp.object_tree),
        "S": struct_tree(inp.species_lca.tree),
        "lca_tree_is_root": inp.species_lca.tree.up is None,
        "leafmap": tuple(sorted((n.name, t.name) for n, t in inp.leaf_object_species.items())),
        "costs": tuple(sorted((k.name, repr(bridge.num(v))) for k, v in inp.costs.items())),
    }
    if hasattr(inp, "leaf_syntenies") and not hasattr(x, "object_species"):
        # the property lists the leaf syntenies only through the labelling of a solution; for a parsed
        # solution the embedded input is a plain ReconciliationInput (observed, not required by C11)
        s["leaf_syn"] = tuple(sorted((n.name, tuple(v)) for n, v in inp.leaf_syntenies.items()))
    if hasattr(x, "object_species"):
        s["map"] = tuple(sorted((n.name, t.name) for n, t in x.object_species.items()))
        s["events"] = tuple(sorted((n.name, x.node_event(n).name) for n in inp.object_tree.traverse()))
        s["cost"] = repr(bridge.num(x.cost()))
        if hasattr(x, "syntenies"):
            s["ordered"] = x.ordered
            if x.ordered:
                s["syn"] = tuple(sorted((n.name, tuple(v)) for n, v in x.syntenies.items()))
            else:
                s["syn"] = tuple(sorted((n.name, tuple(sorted(v))) for n, v in x.syntenies.items()))
    return s


def roundtrip(ctx, case, x, model_trees=None, source="built"):
    klass = type(x)
    try:
        d1 = x.to_dict()
        text = json.dumps(d1)
        d1n = json.loads(text)
        y = klass.from_dict(json.loads(text))
        sx, sy = struct_of(x), struct_of(y)
        d2n = json.loads(json.dumps(y.to_dict()))
    except Exception as exc:  # noqa: BLE001
        ctx.viol("C11.roundtrip", case, f"{klass.__name__} round trip raised {type(exc).__name__}: {exc}")
        return
    ctx.count("evaluations")
    ctx.count("mon.roundtrip")
    for k in sx:
        if sx[k] != sy.get(k):
            ctx.viol("C11.roundtrip", case, f"{klass.__name__}: field '{k}' differs after the round trip: {str(sx[k])[:150]} -> {str(sy.get(k))[:150]}")
            break
    def listed(d):
        """The fields the property lists (the embedded input of a solution: trees, leaf assignment, costs)."""
        if "object_species" not in d:
            return d
        inner = {k: d["input"].get(k) for k in ("object_tree", "species_tree", "leaf_object_species", "costs")}
        return {"input": inner, "object_species": d.get("object_species"), "syntenies": d.get("syntenies"), "ordered": d.get("ordered")}

    l1, l2 = listed(d1n), listed(d2n)
    if l1 != l2:
        diff = [k for k in l1 if l1[k] != l2.get(k)]
        ctx.viol("C11.roundtrip", case, f"{klass.__name__}: second serialisation differs from the first in {diff}")
    if model_trees is not None:
        if sy["G"] != model_trees[0] or sy["S"] != model_trees[1]:
            ctx.viol("C11.roundtrip", case, f"{klass.__name__}: parsed trees differ from the trees the harness generated")
    # history: parsing must build fresh objects every time.  Edit the parsed copy in place (rename, recolour, reorder
    # children), then parse the very same text again: the new object must still equal the original, and the original
    # must not have noticed the edit.
    try:
        yi = y.input if hasattr(y, "object_species") else y
        for k, tree in enumerate((yi.object_tree, yi.species_lca.tree)):
            nodes = list(tree.traverse("preorder"))
            nodes[len(text) % len(nodes)].name = f"edited{k}"
            nodes[(len(text) // 3) % len(nodes)].add_feature("color", "ABCDEF")
            tree.children.reverse()
        z = klass.from_dict(json.loads(text))
        sz, sx2 = struct_of(z), struct_of(x)
        ctx.count("mon.reparse_after_edit")
        for k in sx:
            if sx[k] != sz.get(k):
                ctx.viol("C11.roundtrip", dict(case, history="parsed copy edited in place, same text parsed again"),
                         f"{klass.__name__}: field '{k}' of a second parse of the same text reflects in-place edits made to the first parsed copy: {str(sx[k])[:120]} -> {str(sz.get(k))[:120]}")
                break
        if sx2 != sx:
            ctx.viol("C11.roundtrip", dict(case, history="parsed copy edited in place"), f"{klass.__name__}: editing the parsed copy changed the original object")
    except Exception as exc:  # noqa: BLE001
        ctx.viol("C11.roundtrip", case, f"{klass.__name__}: second parse of the same text raised {type(exc).__name__}: {exc}")
    has_color = "color" in text
    has_inf = "Infinity" in text
    if has_color:
        ctx.count("colored")
    if has_inf:
        ctx.count("inf_cost")
    nleaves = len([1 for _ in (x.input if hasattr(x, "object_species") else x).object_tree.iter_leaves()])
    ctx.sig((klass.__name__, nleaves, has_color, has_inf, case.get("style"), source, sx.get("ordered")), nleaves >= 3)


def check_case(ctx, case):
    from superrec2.model.reconciliation import ReconciliationInput, ReconciliationOutput, SuperReconciliationInput, SuperReconciliationOutput
    from superrec2.utils.trees import LowestCommonAncestor

    import random

    rng = random.Random(case["rseed"])
    Gd, Sd = case["Gd"], case["Sd"]
    gt, st = build_ete(Gd), build_ete(Sd)
    G, S = T(Gd), T(Sd)
    gby = {G.name[v]: v for v in G.nodes}
    gnode = {G.name[v]: n for v, n in zip(G.nodes, gt.traverse("preorder"))}
    snode = {S.name[v]: n for v, n in zip(S.nodes, st.traverse("preorder"))}
    c = {k: (INF if v == "inf" else v) for k, v in case["costs"].items()}
    costs = bridge.mk_costs(c)
    from superrec2.model.reconciliation import NodeEvent

    if c["hgt"] == INF:
        costs[NodeEvent.HORIZONTAL_TRANSFER] = float("inf")  # JSON can carry a float inf
    lm = {gnode[g]: snode[s] for g, s in case["leafmap"].items()}
    models = (struct_model(Gd), struct_model(Sd))
    inp = ReconciliationInput(gt, LowestCommonAncestor(st), lm, costs)
    roundtrip(ctx, case, inp, models)
    leafmap = {gby[g]: next(v for v in S.nodes if S.name[v] == s) for g, s in case["leafmap"].items()}
    maps = []
    import itertools

    for m in dtl.some_recs(G, S, leafmap, 200, rng):
        maps.append(m)
    m = rng.choice(maps)
    byid_g = {v: gnode[G.name[v]] for v in G.nodes}
    byid_s = {v: snode[S.name[v]] for v in S.nodes}
    out = ReconciliationOutput(inp, {byid_g[v]: byid_s[s] for v, s in m.items()})
    roundtrip(ctx, case, out, models)
    syn = case["syn"]
    # leaf syntenies handed over as lists or as tuples (both are ordered sequences of families)
    conv = tuple if case["rseed"] % 3 == 0 else list
    sinp = SuperReconciliationInput(gt, LowestCommonAncestor(st), lm, costs, {gnode[g]: conv(f) for g, f in syn.items()})
    roundtrip(ctx, case, sinp, models)
    # valid ordered and unordered labellings
    class FakeB:
        pass

    FB = FakeB()
    FB.G, FB.S = G, S
    FB.syn = {gby[g]: tuple(f) for g, f in syn.items()}
    exts = label.linear_extensions([tuple(f) for f in syn.values()])
    if exts:
        lab = C06.random_ordered_labelling(rng, FB, rng.choice(exts))
        sout = SuperReconciliationOutput(input=sinp, object_species={byid_g[v]: byid_s[s] for v, s in m.items()},
                                         syntenies={byid_g[v]: list(x) for v, x in lab.items()}, ordered=True)
        roundtrip(ctx, case, sout, models)
    ulab = C06.random_unordered_labelling(rng, FB)
    uout = SuperReconciliationOutput(input=sinp, object_species={byid_g[v]: byid_s[s] for v, s in m.items()},
                                     syntenies={byid_g[v]: set(x) for v, x in ulab.items()}, ordered=False)
    roundtrip(ctx, case, uout, models)
    if G.is_binary() and len(G.leaves()) >= 4:
        ctx.sample({k: v for k, v in case.items()})


def check_relabelled(ctx, rng):
    """History: an input with unnamed ancestors is inspected first (repr / to_dict - legal at any time), then its
    ancestors are named by label_internal() (what the CLI and the solvers do); from then on its nodes are uniquely named
    and the round trip must reproduce it - nothing of the earlier serialisation may be reused."""
    for algo in ("thl", "superdtl"):
        Gn, Sn, lm = gen.random_input(rng, 5, 4, min_obj=2, min_sp=2)
        case = {"kind": "relabel", "algo": algo, "G": Gn, "S": Sn, "leafmap": lm, "costs": gen.random_cost(rng), "named": False}
        if case["costs"]["hgt"] == "inf":
            case["costs"]["hgt"] = 9
        if algo == "superdtl":
            case["syn"] = gen.random_syntenies(rng, list(lm), 3, ordered=False)
        B = bridge.Built(case, named=False)
        try:
            repr(B.inp)
            B.inp.to_dict()
        except Exception:  # noqa: BLE001 - serialising an input with unnamed ancestors is not what is observed here
            pass
        B.inp.label_internal()
        ctx.count("mon.relabelled")
        roundtrip(ctx, case, B.inp, None, source="relabelled")
        obs = SC.call(algo, B.inp, ALL)
        for out in obs.outs[:3]:
            roundtrip(ctx, case, out, None, source="relabelled-solution")


def check_solver_outputs(ctx, rng):
    """Round trip of what the real solvers return."""
    for algo in ("thl", "ext_spfs", "superdtl", "lca", "base_uspfs"):
        kind = SC.kind_of(algo)
        if kind == "plain":
            Gn, Sn, lm = gen.random_input(rng, 5, 4, min_obj=2)
            case = {"kind": "solver", "algo": algo, "G": Gn, "S": Sn, "leafmap": lm, "costs": gen.random_cost(rng)}
        else:
            case = suite.random_super_case(rng, algo, 4, 3, 3, consistent_p=1.0, min_obj=2)
            case.update(kind="solver", algo=algo)
        if case["costs"]["hgt"] == "inf":
            case["costs"]["hgt"] = 9  # infinity.inf is not JSON-serialisable; float inf is covered by built objects
        B = bridge.Built(case)
        obs = SC.call(algo, B.inp, ALL)
        for out in obs.outs[:6]:
            ctx.count("solver_outputs")
            roundtrip(ctx, case, out, None, source="solver")


def canaries(ctx):
    a = {"name": "r", "ch": [{"name": "x", "ch": []}, {"name": "y", "ch": [], "color": "FF0000"}]}
    t = build_ete(a)
    ok = struct_tree(t) == struct_model(a)
    b = {"name": "r", "ch": [{"name": "y", "ch": [], "color": "FF0000"}, {"name": "x", "ch": []}]}
    ok &= struct_tree(build_ete(b)) != struct_model(a)
    c = {"name": "r", "ch": [{"name": "x", "ch": []}, {"name": "y", "ch": []}]}
    ok &= struct_tree(build_ete(c)) != struct_model(a)
    ctx.count("canaries")
    if not ok:
        raise Inconclusive("C11 canary failed")


def make_case(rng):
    no = rng.randint(1, 8)
    ns = rng.randint(1, 6)
    G = RT.random_tree_shape(rng, gen.object_labels(no))
    S = RT.random_tree_shape(rng, gen.species_labels(ns))
    style = rng.choice(["plain", "random", "special", "random", "punct"])
    gnames = rand_names(rng, count_nodes(G), style)
    snames = rand_names(rng, count_nodes(S), style)
    colors_p = rng.choice([0, 0.2, 0.6])
    Gd = decorate(rng, G, gnames, colors_p)
    Sd = decorate(rng, S, snames, colors_p / 3)
    gl = [T(Gd).name[v] for v in T(Gd).leaves()]
    sl = [T(Sd).name[v] for v in T(Sd).leaves()]
    cost = gen.random_cost(rng, coherent_only=False)
    if rng.random() < 0.25:
        cost["hgt"] = "inf"
    if rng.random() < 0.08:
        # integer unit costs that no double represents exactly (above 2**53, odd): they must come back digit for digit
        for k in rng.sample(["spe", "dup", "floss", "sloss"], rng.randint(1, 2)):
            cost[k] = rng.choice([2**53 + 1, 3 * 10**16 + 1, 10**18 + 7, 2**64 + 3, 10**22 + 1])
    syn = gen.random_syntenies(rng, gl, 4, ordered=True, consistent_p=1.0)
    if rng.random() < 0.5:
        # family names that differ only by zero padding / case / an embedded number: distinct families all the same
        pool = rng.sample(["g1", "g01", "g001", "g10", "orf2", "orf02", "G1", "2", "02", "a_1", "a_01", "x"], 4)
        ren = {f"f{i}": pool[i] for i in range(4)}
        syn = {g: [ren[f] for f in fs] for g, fs in syn.items()}
    return {"kind": "rt", "Gd": Gd, "Sd": Sd, "leafmap": {g: rng.choice(sl) for g in gl}, "costs": cost, "syn": syn, "style": style, "rseed": rng.randrange(10**9)}


def run(ctx, spec):
    rng = ctx.rng("rt")
    for k in range(spec["count"]):
        case = make_case(rng)
        check_case(ctx, case)
        if k % 6 == 0:
            check_solver_outputs(ctx, rng)
        if k % 6 == 3:
            check_relabelled(ctx, rng)
        if ctx.too_many():
            return


def replay(ctx, case):
    if case["kind"] == "rt":
        check_case(ctx, case)
    elif case["kind"] == "relabel":
        B = bridge.Built(case, named=False)
        try:
            repr(B.inp)
            B.inp.to_dict()
        except Exception:  # noqa: BLE001
            pass
        B.inp.label_internal()
        roundtrip(ctx, case, B.inp, None, source="relabelled")
        obs = SC.call(case["algo"], B.inp, ALL)
        for out in obs.outs[:3]:
            roundtrip(ctx, case, out, None, source="relabelled-solution")
    else:
        B = bridge.Built(case)
        obs = SC.call(case["algo"], B.inp, ALL)
        for out in obs.outs[:6]:
            roundtrip(ctx, case, out, None, source="solver")
