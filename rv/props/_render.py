"""Shared pipeline for C13 / C14 / C15: real layout.compute + tikz.render under a stub measurer,
harness-side extraction, and the oracles of the three properties."""
import collections
import itertools
import math
import random

from rv import bridge, gen, render_stub, solvercheck as SC
from rv.props import C06
from rv.refmodel import dtl, label, tikz, trees as RT
from rv.refmodel.trees import T

INF = math.inf
KIND_STYLE = {"LEAF": "extant gene", "SPECIATION": "speciation", "DUPLICATION": "duplication", "HORIZONTAL_TRANSFER": "horizontal gene transfer", "FULL_LOSS": "loss"}
EVK = {"LEAF": "LEAF", "SPE": "SPECIATION", "DUP": "DUPLICATION", "HGT": "HORIZONTAL_TRANSFER"}


# ------------------------------------------------------------------- building
def make_case(rng, max_obj, max_sp, labelled=None, hostile=False, colors=False, max_fam=4, unordered=None):
    ns = rng.randint(1, max_sp)
    no = rng.randint(1, max_obj)
    if hostile:
        pool = ["X", "Y_1", "sp\\a", "A_B_C", "Z9", "under_score", "q", "W\\", "m_", "K2"]
    else:
        pool = list("ABCDEFGHIJ")
    sp_names = rng.sample(pool, ns)
    S = RT.random_tree_shape(rng, sp_names)
    leaves = []
    leafmap = {}
    for i in range(no):
        sp = rng.choice(sp_names)
        nm = f"{sp}_{i}" if not hostile or rng.random() < 0.5 else f"{sp}_x\\{i}"
        leaves.append(nm)
        leafmap[nm] = sp
    G = RT.random_tree_shape(rng, leaves)
    case = {"kind": "render", "G": G, "S": S, "leafmap": leafmap, "costs": dict(gen.DEFAULT), "rseed": rng.randrange(10**9)}
    if labelled is None:
        labelled = rng.random() < 0.5
    if labelled:
        fams = [f"f{i}" for i in range(max_fam)] if not hostile else ["g_1", "fam2", "x_y_z", "a", "B10", "c3", "d", "e_", "ff", "g", "h1", "i22"][:max_fam]
        k = rng.randint(1, len(fams))
        hidden = rng.sample(fams, k)
        glued = None
        if hostile and len(leaves) >= 2 and rng.random() < 0.4:
            # family names whose concatenations collide ([a, b] vs [ab], [tra, A] vs [traA]): two different syntenies
            # that read alike once their names are glued together, each carried by some leaf
            x, y, xy = rng.choice([("a", "b", "ab"), ("tra", "A", "traA"), ("a", "ab", "aab"), ("b_", "a", "b_a"), ("g", "1", "g1"), ("f", "f", "ff")][:5])
            rest = [f for f in ["c", "d2", "e_", "B10"] if rng.random() < 0.5]
            hidden = [x, y]
            for f in [xy] + rest:
                hidden.insert(rng.choice([0, len(hidden)]), f)  # x and y stay adjacent, in this order
            k = len(hidden)
            glued = ([x, y], [xy])
        syn = {}
        for g in leaves:
            sub = rng.sample(hidden, rng.randint(1, k))
            sub.sort(key=hidden.index)
            syn[g] = sub
        if glued:
            g1, g2 = rng.sample(leaves, 2)
            syn[g1], syn[g2] = list(glued[0]), list(glued[1])
            for g in leaves:
                if g not in (g1, g2) and rng.random() < 0.5:
                    syn[g] = list(rng.choice(glued))
        case["syn"] = syn
        case["unordered"] = rng.random() < 0.4 if unordered is None else unordered
    if colors:
        case["colors"] = True
    if rng.random() < 0.3:
        case["unnamed_internal"] = True
    return case


def node_names(t, prefix):
    return {v: (t.name[v] if not t.children[v] else f"{prefix}{i}") for i, v in enumerate(t.nodes)}


class Scene:
    """A case turned into a real (Super)ReconciliationOutput plus model-side expectations."""

    def __init__(self, case, mapping=None):
        from ete3 import Tree
        from superrec2.model.reconciliation import ReconciliationInput, ReconciliationOutput, SuperReconciliationInput, SuperReconciliationOutput
        from superrec2.utils.trees import LowestCommonAncestor

        self.case = case
        rng = random.Random(case["rseed"])
        self.G, self.S = T(case["G"]), T(case["S"])
        G, S = self.G, self.S
        gl = {G.name[v]: v for v in G.leaves()}
        sl = {S.name[v]: v for v in S.leaves()}
        self.leafmap = {gl[g]: sl[s] for g, s in case["leafmap"].items()}

        def build(t, prefix):
            nodes = {}

            def go(v):
                n = Tree()
                n.name = t.name[v] if not t.children[v] else f"{prefix}{v}"
                if t.children[v] and prefix == "O" and case.get("unnamed_internal"):
                    n.name = ""  # ancestors left unnamed, as after parsing a plain Newick string
                nodes[v] = n
                for c in t.children[v]:
                    n.add_child(go(c))
                return n

            return go(t.root), nodes

        self.gt, self.gnode = build(G, "O")
        self.st, self.snode = build(S, "S")
        # colours on random (also nested, also leaf) object nodes; expected colour by nearest coloured ancestor-or-self
        self.own_color = {}
        if case.get("own_color") is not None:
            self.own_color = {int(k): v for k, v in case["own_color"].items()}
        elif case.get("colors"):
            for v in G.nodes:
                if rng.random() < 0.3:
                    self.own_color[v] = "".join(rng.choice("0123456789ABCDEF") for _ in range(6))
                    if rng.random() < 0.25:
                        # an explicitly given black (the colour of uncoloured nodes) or a repeat of an ancestor's colour
                        anc_cols = [self.own_color[a] for a in G.anc[v] if a != v and a in self.own_color]
                        self.own_color[v] = rng.choice(["000000", "000000", "FFFFFF"] + anc_cols)
        for v, col in self.own_color.items():
            self.gnode[v].add_feature("color", col)
        self.expected_color = {}
        for v in G.nodes:
            col = None
            for a in G.anc[v]:
                if a in self.own_color:
                    col = self.own_color[a]
                    break
            self.expected_color[v] = col or "000000"
        if mapping is None:
            if case.get("mapping"):
                mapping = {int(k): v for k, v in case["mapping"].items()}
            else:
                if rng.random() < 0.5:
                    mapping = dtl.random_rec(rng, G, S, self.leafmap, high_p=rng.choice([0.2, 0.5, 0.9]))
                else:
                    maps = dtl.some_recs(G, S, self.leafmap, 300, rng)
                    mapping = rng.choice(maps)
        self.m = mapping
        lm = {self.gnode[v]: self.snode[s] for v, s in self.leafmap.items()}
        om = {self.gnode[v]: self.snode[s] for v, s in mapping.items()}
        self.lab = None
        self.ordered = True
        if case.get("syn"):
            self.syn = {gl[g]: tuple(f) for g, f in case["syn"].items()}
            fb = type("FB", (), {})()
            fb.G, fb.S, fb.syn = G, S, self.syn
            inp = SuperReconciliationInput(self.gt, LowestCommonAncestor(self.st), lm, leaf_syntenies={self.gnode[v]: list(f) for v, f in self.syn.items()})
            if case.get("unordered"):
                self.ordered = False
                if case.get("labelling"):
                    self.lab = {int(k): frozenset(x) for k, x in case["labelling"].items()}
                else:
                    self.lab = C06.random_unordered_labelling(rng, fb)
                syn = {self.gnode[v]: set(x) for v, x in self.lab.items()}
            else:
                if case.get("labelling"):
                    self.lab = {int(k): tuple(x) for k, x in case["labelling"].items()}
                else:
                    ext = label.one_extension([tuple(f) for f in self.syn.values()], rng)
                    self.lab = C06.random_ordered_labelling(rng, fb, ext)
                syn = {self.gnode[v]: list(x) for v, x in self.lab.items()}
            self.out = SuperReconciliationOutput(input=inp, object_species=om, syntenies=syn, ordered=self.ordered)
        else:
            inp = ReconciliationInput(self.gt, LowestCommonAncestor(self.st), lm)
            self.out = ReconciliationOutput(inp, om)
        self.gid = {n: v for v, n in self.gnode.items()}
        self.sid = {n: v for v, n in self.snode.items()}

    @classmethod
    def from_output(cls, out, case):
        """Scene around an existing (parsed) output object, e.g. a test fixture."""
        self = cls.__new__(cls)
        self.case = case
        self.out = out
        self.gt, self.st = out.input.object_tree, out.input.species_lca.tree
        self.G, gid = bridge.model_from_ete(self.gt)
        self.S, sid = bridge.model_from_ete(self.st)
        self.gid, self.sid = gid, sid
        self.gnode = {v: n for n, v in gid.items()}
        self.snode = {v: n for n, v in sid.items()}
        self.m = {gid[n]: sid[s] for n, s in out.object_species.items()}
        self.leafmap = {v: self.m[v] for v in self.G.leaves()}
        self.own_color = {gid[n]: n.color for n in self.gt.traverse() if hasattr(n, "color")}
        self.expected_color = {}
        for v in self.G.nodes:
            col = None
            for a in self.G.anc[v]:
                if a in self.own_color:
                    col = self.own_color[a]
                    break
            self.expected_color[v] = col or "000000"
        self.lab = None
        self.ordered = True
        if hasattr(out, "syntenies") and out.syntenies:
            self.ordered = bool(out.ordered)
            self.lab = {gid[n]: (tuple(x) if self.ordered else frozenset(x)) for n, x in out.syntenies.items()}
        return self

    def full_case(self, **extra):
        """The case with every random choice made explicit (faithful replay)."""
        c = dict(self.case, mapping={str(k): v for k, v in self.m.items()}, own_color={str(k): v for k, v in self.own_color.items()})
        if self.lab is not None:
            c["labelling"] = {str(k): (list(x) if self.ordered else sorted(x)) for k, x in self.lab.items()}
        c.update(extra)
        return c

    # model expectations -------------------------------------------------
    def events(self):
        return dtl.rec_events(self.G, self.S, self.m)

    def expected_losses(self):
        """Counter species id -> number of loss markers; list of (species, kept child species, gene id of the lineage)."""
        G, S, m = self.G, self.S, self.m
        cnt = collections.Counter()
        detail = []
        for v in G.nodes:
            if not G.children[v]:
                continue
            a, b = G.children[v]
            ev = dtl.event(S, m[v], m[a], m[b])

            def path(child_sp, top, include_top):
                res = []
                prev = child_sp
                s = S.parent[child_sp]
                while s is not None:
                    if s == top and not include_top:
                        break
                    res.append((s, prev))
                    if s == top:
                        break
                    prev = s
                    s = S.parent[s]
                return res

            if ev == "SPE":
                for ch in (a, b):
                    for s, kept in path(m[ch], m[v], False):
                        cnt[s] += 1
                        detail.append((s, kept, ch))
            elif ev == "DUP":
                for ch in (a, b):
                    if m[ch] != m[v]:
                        for s, kept in path(m[ch], m[v], True):
                            cnt[s] += 1
                            detail.append((s, kept, ch))
            elif ev == "HGT":
                ch = a if S.is_anc(m[v], m[a]) else b
                if m[ch] != m[v]:
                    for s, kept in path(m[ch], m[v], True):
                        cnt[s] += 1
                        detail.append((s, kept, ch))
        return cnt, detail

    def transferred_children(self):
        G, S, m = self.G, self.S, self.m
        res = []
        for v in G.nodes:
            if G.children[v]:
                a, b = G.children[v]
                if dtl.event(S, m[v], m[a], m[b]) == "HGT":
                    res.append((v, b if S.is_anc(m[v], m[a]) else a))
        return res


def perturbed_params(rng, orientation, wrap=None):
    from superrec2.render.model import DrawParams, Orientation

    kw = {"orientation": Orientation[orientation]}
    if rng is not None:
        for f in ("species_branch_padding", "gene_branch_spacing", "trunk_overhead", "min_subtree_spacing", "level_spacing", "species_leaf_spacing",
                  "species_label_spacing", "extant_gene_diameter", "loss_size", "speciation_size", "duplication_size", "transfer_size"):
            if rng.random() < 0.6:
                kw[f] = round(rng.choice([0.5, 1, 2.5, 7, 13, 40]) * rng.choice([1, 1, 1.5]), 3)
    if wrap is not None:
        kw["event_label_width"] = wrap[0]
        kw["species_label_width"] = wrap[1]
    return DrawParams(**kw)


def draw(scene, params, stub, engine=False):
    """Real layout.compute + tikz.render under the stub.  -> (layout, tikz text) ; exceptions propagate."""
    from superrec2.render import layout as LAY, tikz as TK

    if engine:
        undo, seen = render_stub.install_fake_engine(stub)
    else:
        undo = render_stub.install(stub)
    try:
        lay = LAY.compute(scene.out, params)
        code = TK.render(scene.out, lay, params)
    finally:
        undo()
    return lay, code


# ------------------------------------------------------------------ extraction
def extract_layout(scene, lay):
    """Plain data view of a Layout."""
    from superrec2.render.model import PseudoGene

    res = {}
    for sp, sl in lay.items():
        s = scene.sid.get(sp)
        branches = []
        for anchor, br in sl.branches.items():
            branches.append({
                "gene": scene.gid.get(anchor) if not isinstance(anchor, PseudoGene) else None,
                "anchor_obj": anchor,
                "pseudo": isinstance(anchor, PseudoGene),
                "kind": br.kind.name,
                "rect": tuple(br.rect),
                "name": br.name,
                "color": br.color,
                "left": br.left,
                "right": br.right,
                "anchors4": (tuple(br.anchor_parent), tuple(br.anchor_left), tuple(br.anchor_right), tuple(br.anchor_child)),
            })
        res[s] = {"rect": tuple(sl.rect), "trunk": tuple(sl.trunk), "fork": sl.fork_thickness, "branches": branches,
                  "anchors": {k: tuple(v) for k, v in sl.anchors.items()}, "sp_node": sp}
    return res


# --------------------------------------------------------------------- C13
def judge_events(scene, L, code, params, stub):
    """-> list of (monitor, msg)"""
    fails = []
    G, S, m = scene.G, scene.S, scene.m
    ev = scene.events()
    seen = collections.Counter()
    losses = collections.Counter()
    nkind = collections.Counter()
    for s, sl in L.items():
        for br in sl["branches"]:
            nkind[br["kind"]] += 1
            if br["kind"] == "FULL_LOSS":
                losses[s] += 1
                if not br["pseudo"]:
                    fails.append(("events", "a loss marker is stored under a real object node"))
                continue
            if br["pseudo"] or br["gene"] is None:
                fails.append(("events", f"an event node of kind {br['kind']} is not attached to an object node"))
                continue
            v = br["gene"]
            seen[v] += 1
            if m[v] != s:
                fails.append(("events", f"object node {v} is drawn in species {s} but mapped to {m[v]}"))
            if br["kind"] != EVK[ev[v]]:
                fails.append(("events", f"object node {v} drawn as {br['kind']}, the evaluator's event is {EVK[ev[v]]}"))
    for v in G.nodes:
        if seen[v] != 1:
            fails.append(("events", f"object node {v} has {seen[v]} event nodes in the layout"))
    want_losses, detail = scene.expected_losses()
    if +losses != +want_losses:
        fails.append(("losses", f"loss markers per species {dict(losses)}, full losses counted by the model {dict(want_losses)}"))
    else:
        # kept child on the correct side
        for s, sl in L.items():
            if not S.children[s]:
                continue
            lsp, rsp = S.children[s]
            want_sides = collections.Counter("L" if S.is_anc(lsp, kept) else "R" for (ss, kept, ch) in detail if ss == s)
            got_sides = collections.Counter()
            for br in sl["branches"]:
                if br["kind"] == "FULL_LOSS":
                    if (br["left"] is None) == (br["right"] is None):
                        fails.append(("losses", f"loss marker in species {s} keeps {'both' if br['left'] is not None else 'no'} child"))
                        continue
                    side = "L" if br["left"] is not None else "R"
                    got_sides[side] += 1
                    kept = br["left"] if side == "L" else br["right"]
                    child_layout = L[lsp if side == "L" else rsp]
                    if kept not in child_layout["anchors"]:
                        fails.append(("losses", f"loss marker in species {s}: the kept copy is not an anchor of the {side} child species"))
            if got_sides != want_sides:
                fails.append(("losses", f"species {s}: losses keep sides {dict(got_sides)}, model {dict(want_sides)}"))
    # cost recount from the picture
    c = {"spe": 0, "dup": 1, "hgt": 1, "floss": 1}
    pic_cost = nkind["SPECIATION"] * c["spe"] + nkind["DUPLICATION"] * c["dup"] + nkind["HORIZONTAL_TRANSFER"] * c["hgt"] + nkind["FULL_LOSS"] * c["floss"]
    try:
        rc = scene.out.reconciliation_cost() if hasattr(scene.out, "reconciliation_cost") else scene.out.cost()
    except KeyError:
        # drawing-only inputs (fixtures) carry no leaf assignment: the evaluator cannot be asked, the model can
        rc = dtl.rec_cost(G, S, m, dict(c, sloss=1))
    if pic_cost != bridge.num(rc):
        fails.append(("events", f"events in the picture cost {pic_cost}, the evaluator's reconciliation cost is {bridge.num(rc)}"))
    # TikZ statements
    P = tikz.parse(code)
    if P["problems"]:
        fails.append(("tikz", f"generated TikZ is malformed: {P['problems'][:2]}"))
        return fails, P
    # bijection layout branches <-> \node statements on (kind, colour, label[, position])
    def r4(p):
        return (float(p[0]), float(p[1]))

    want_nodes = collections.Counter()
    for s, sl in L.items():
        for br in sl["branches"]:
            x, y, w, h = br["rect"]
            style = KIND_STYLE[br["kind"]]
            if br["kind"] == "LEAF":
                d = params.extant_gene_diameter / 2
                pos = (x + w / 2, y + d) if params.orientation.name == "VERTICAL" else (x + d, y + h / 2)
                lab = br["name"]
            elif br["kind"] == "FULL_LOSS":
                # the cross sits on the trunk edge facing the child species in which the copy was LOST
                # (left child species is drawn left / on top), level with the loss branch
                tx, ty, tw, th = sl["trunk"]
                kept_left = br["left"] is not None
                if params.orientation.name == "VERTICAL":
                    pos = (tx + tw if kept_left else tx, y + h / 2)
                else:
                    pos = (x + w / 2, ty + th if kept_left else ty)
                lab = ""
            else:
                pos = (x + w / 2, y + h / 2)
                lab = br["name"] or ("\\phantom{-}" if br["kind"] == "HORIZONTAL_TRANSFER" else "")
            want_nodes[(style, br["color"], lab, r4(pos) if pos else None)] += 1
    got_nodes = collections.Counter()
    for nd in P["nodes"]:
        html = P["colors"].get(nd["color"])
        got_nodes[(nd["kind"], html, nd["label"], r4(nd["pos"]))] += 1
    miss, extra = _match_nodes(want_nodes, got_nodes)
    if miss or extra:
        fails.append(("tikz", f"layout branches and TikZ \\node statements do not correspond one to one; only in layout: {miss[:2]}; only in TikZ: {extra[:2]}"))
    # transfers: one arrow per transfer, ending at the anchor of the transferred child
    arrows = [p for p in P["paths"] if p["style"] == "transfer branch"]
    want_t = scene.transferred_children()
    if len(arrows) != len(want_t):
        fails.append(("transfers", f"{len(arrows)} transfer arrows drawn, the model has {len(want_t)} transfers"))
    else:
        ends = collections.Counter(r4(a["coords"][-1]) for a in arrows if a["coords"])
        want_ends = collections.Counter()
        ok = True
        for v, ch in want_t:
            sl = L[m[ch]]
            node = scene.gnode[ch]
            if node not in sl["anchors"]:
                fails.append(("transfers", f"transferred child {ch} has no anchor in species {m[ch]}"))
                ok = False
            else:
                want_ends[r4(sl["anchors"][node])] += 1
        if ok and any(_match_points(list(want_ends.elements()), list(ends.elements()))):
            fails.append(("transfers", f"transfer arrows end at {sorted(ends)}, anchors of the transferred children are {sorted(want_ends)}"))
    # measurement order correspondence: each branch has the stub size of its own snippet
    if stub.calls or True:
        for s, sl in L.items():
            for br in sl["branches"]:
                x, y, w, h = br["rect"]
                style = KIND_STYLE[br["kind"]]
                if br["kind"] == "LEAF":
                    snippet = f"\\tikz\\node[extant gene={{black}}{{{br['name']}}}] {{}};"
                else:
                    snippet = f"\\tikz\\node[{style}] {{{br['name']}}};"
                sw, sh, sd = stub.size_of(snippet)
                want = (sh + sd, sw) if stub.swap else (sw, sh + sd)
                if abs(w - want[0]) > 1e-6 or abs(h - want[1]) > 1e-6:
                    fails.append(("measure", f"{br['kind']} node {br['gene']} ({br['name']!r}) has size {(w, h)}, its own measurement is {want}"))
                    break
    return fails, P


def _match_points(want, got, tol=1e-3):
    """Greedy matching of two point lists within tol -> (unmatched want, unmatched got)."""
    got = list(got)
    miss = []
    for p in want:
        hit = None
        for i, q in enumerate(got):
            if (p is None and q is None) or (p is not None and q is not None and abs(p[0] - q[0]) <= tol and abs(p[1] - q[1]) <= tol):
                hit = i
                break
        if hit is None:
            miss.append(p)
        else:
            got.pop(hit)
    return miss, got


def _match_nodes(want, got):
    keys = {k[:3] for k in want} | {k[:3] for k in got}
    miss, extra = [], []
    for key in keys:
        w = [k[3] for k, n in want.items() if k[:3] == key for _ in range(n)]
        g = [k[3] for k, n in got.items() if k[:3] == key for _ in range(n)]
        m, e = _match_points(w, g)
        miss += [(key, p) for p in m]
        extra += [(key, p) for p in e]
    return miss, extra


def _approx_counter(c):
    out = collections.Counter()
    for (a, b, lab, pos), n in c.items():
        if pos is not None:
            pos = (round(pos[0], 2), round(pos[1], 2))
        out[(a, b, lab, pos)] += n
    return out


# --------------------------------------------------------------------- C14
def overlap(a, b, eps=1e-7):
    return a[0] < b[0] + b[2] - eps and b[0] < a[0] + a[2] - eps and a[1] < b[1] + b[3] - eps and b[1] < a[1] + a[3] - eps


def inside(a, b, eps=1e-7):
    return a[0] >= b[0] - eps and a[1] >= b[1] - eps and a[0] + a[2] <= b[0] + b[2] + eps and a[1] + a[3] <= b[1] + b[3] + eps


def judge_geometry(scene, L):
    fails = []
    S = scene.S
    for s, sl in L.items():
        nums = list(sl["rect"]) + list(sl["trunk"]) + [sl["fork"]]
        for br in sl["branches"]:
            nums += list(br["rect"])
            for a in br["anchors4"]:
                nums += list(a)
        for a in sl["anchors"].values():
            nums += list(a)
        if not all(isinstance(x, (int, float)) and math.isfinite(x) for x in nums):
            fails.append(("finite", f"species {s}: non-finite coordinate"))
        if S.children[s]:
            l, r = S.children[s]
            if overlap(L[l]["rect"], L[r]["rect"]):
                fails.append(("boxes", f"boxes of the sibling species {l} and {r} overlap: {L[l]['rect']} / {L[r]['rect']}"))
            for ch in (l, r):
                if not inside(L[ch]["rect"], sl["rect"]):
                    fails.append(("boxes", f"box of species {ch} {L[ch]['rect']} is not inside its parent's {sl['rect']}"))
    sp = sorted(L)
    for i in range(len(sp)):
        for j in range(i + 1, len(sp)):
            a, b = sp[i], sp[j]
            ta, tb = L[a]["trunk"], L[b]["trunk"]
            if overlap(ta, tb):
                # mechanism classification (known finding F-TRUNK-OVERHANG): the overlap lies in the part of a trunk
                # that overhangs its own species box, i.e. outside the box of one of the two species
                ox0, oy0 = max(ta[0], tb[0]), max(ta[1], tb[1])
                ox1, oy1 = min(ta[0] + ta[2], tb[0] + tb[2]), min(ta[1] + ta[3], tb[1] + tb[3])
                orect = (ox0, oy0, ox1 - ox0, oy1 - oy0)
                # ... and the two species are not the two children of one node: the trunks of direct siblings are spaced
                # by the parent from their trunk distances (which take a protruding trunk into account), so an overlap
                # between them is never the recorded mechanism (it concerns a trunk deeper inside a neighbouring subtree)
                direct_siblings = S.parent[a] is not None and S.parent[a] == S.parent[b]
                overhang = (not S.comparable(a, b) and not direct_siblings
                            and (not overlap(orect, L[a]["rect"]) or not overlap(orect, L[b]["rect"])))
                fails.append(("trunks_overhang" if overhang else "trunks", f"trunks of species {a} and {b} overlap: {ta} / {tb}"
                              + (" (the overlap lies in the part of a trunk that overhangs its own species box)" if overhang else "")))
    # anchors referenced by drawn branches exist
    for s, sl in L.items():
        kids = S.children[s]
        own = {id(br["anchor_obj"]) for br in sl["branches"]}
        for br in sl["branches"]:
            k = br["kind"]
            if k == "SPECIATION":
                if not kids or br["left"] not in L[kids[0]]["anchors"] or br["right"] not in L[kids[1]]["anchors"]:
                    fails.append(("anchors", f"speciation in species {s}: a child anchor does not exist in the child species"))
            elif k == "DUPLICATION":
                if id(br["left"]) not in own or id(br["right"]) not in own:
                    fails.append(("anchors", f"duplication in species {s}: a child branch does not exist in the same species"))
            elif k == "HORIZONTAL_TRANSFER":
                if id(br["left"]) not in own:
                    fails.append(("anchors", f"transfer in species {s}: conserved child branch missing"))
                tgt = scene.gid.get(br["right"])
                if tgt is None or br["right"] not in L[scene.m[tgt]]["anchors"]:
                    fails.append(("anchors", f"transfer in species {s}: no anchor for the transferred child"))
            elif k == "FULL_LOSS":
                kept = br["left"] if br["left"] is not None else br["right"]
                side = 0 if br["left"] is not None else 1
                if not kids or kept not in L[kids[side]]["anchors"]:
                    fails.append(("anchors", f"loss in species {s}: kept copy has no anchor in the child species"))
    return fails


def judge_symmetry(scene, LV, LH, tol=1e-6):
    """Horizontal layout == x/y mirror of the vertical layout computed with transposed sizes."""
    fails = []

    def close(p, q):
        return len(p) == len(q) and all(abs(a - b) <= tol for a, b in zip(p, q))

    def tr(rect):
        return (rect[1], rect[0], rect[3], rect[2])

    for s in LV:
        a, b = LV[s], LH[s]
        if not close(tr(a["rect"]), b["rect"]):
            fails.append(("symmetry", f"species {s}: box {a['rect']} (vertical) vs {b['rect']} (horizontal) are not mirror images"))
        if not close(tr(a["trunk"]), b["trunk"]):
            fails.append(("symmetry", f"species {s}: trunk {a['trunk']} vs {b['trunk']} are not mirror images"))
        if abs(a["fork"] - b["fork"]) > tol:
            fails.append(("symmetry", f"species {s}: fork thickness {a['fork']} vs {b['fork']}"))
        ra = sorted((br["kind"], br["gene"] if br["gene"] is not None else -1, tuple(round(x, 5) for x in tr(br["rect"]))) for br in a["branches"])
        rb = sorted((br["kind"], br["gene"] if br["gene"] is not None else -1, tuple(round(x, 5) for x in br["rect"])) for br in b["branches"])
        if len(ra) != len(rb) or any(x[0] != y[0] or x[1] != y[1] or not close(x[2], y[2]) for x, y in zip(ra, rb)):
            fails.append(("symmetry", f"species {s}: branch rectangles are not mirror images"))
        else:
            # the four connection points of every branch (towards the parent, the two children, the child side) are part
            # of the layout too: role by role, the horizontal ones are the transposed vertical ones
            key = lambda br, t: (br["kind"], br["gene"] if br["gene"] is not None else -1, tuple(round(x, 5) for x in (t(br["rect"]))))  # noqa: E731
            av = {key(br, tr): br["anchors4"] for br in a["branches"]}
            ah = {key(br, lambda r: r): br["anchors4"] for br in b["branches"]}
            for kk, pts in av.items():
                qts = ah.get(kk)
                if qts is None:
                    continue
                for role, pv, ph in zip(("parent", "left", "right", "child"), pts, qts):
                    if not close((pv[1], pv[0]), ph):
                        fails.append(("symmetry", f"species {s}: the '{role}' connection point of the {kk[0]} branch of object node {kk[1]} is {pv} (vertical) vs {ph} (horizontal): not mirror images"))
                        break
        for k, p in a["anchors"].items():
            if k in scene.gid:
                q = b["anchors"].get(k)
                if q is None or not close((p[1], p[0]), q):
                    fails.append(("symmetry", f"species {s}: anchor of object node {scene.gid[k]} {p} vs {q}"))
    return fails


def layout_fingerprint(L):
    out = []
    for s in sorted(L):
        sl = L[s]
        out.append((s, tuple(round(x, 9) for x in sl["rect"]), tuple(round(x, 9) for x in sl["trunk"]), round(sl["fork"], 9),
                    tuple(sorted((br["kind"], br["gene"] if br["gene"] is not None else -1, tuple(round(x, 9) for x in br["rect"]), br["name"], br["color"]) for br in sl["branches"]))))
    return tuple(out)


# --------------------------------------------------------------------- C15
def judge_colors_labels(scene, L, P, params):
    fails = []
    G = scene.G
    # colours: object nodes
    for s, sl in L.items():
        for br in sl["branches"]:
            if br["gene"] is not None and not br["pseudo"]:
                want = scene.expected_color[br["gene"]]
                if br["color"] != want:
                    fails.append(("colors", f"object node {br['gene']} is drawn in colour {br['color']}, expected {want} (nearest coloured ancestor-or-self in the original tree)"))
    # loss markers carry the colour of the lineage they belong to
    for s, sl in L.items():
        for br in sl["branches"]:
            if br["kind"] == "FULL_LOSS":
                kept = br["left"] if br["left"] is not None else br["right"]
                guard = 0
                cur = kept
                while cur not in scene.gid and guard < 50:
                    nxt = None
                    for s2, sl2 in L.items():
                        for b2 in sl2["branches"]:
                            if b2["anchor_obj"] is cur:
                                nxt = b2["left"] if b2["left"] is not None else b2["right"]
                    if nxt is None:
                        break
                    cur = nxt
                    guard += 1
                if cur in scene.gid and br["color"] != scene.expected_color[scene.gid[cur]]:
                    fails.append(("colors", f"loss marker of the lineage of object node {scene.gid[cur]} has colour {br['color']}, expected {scene.expected_color[scene.gid[cur]]}"))
    # defined colours carry the right HTML values, and every used one is defined (tikz.parse reports undefined ones)
    used_html = {P["colors"].get(c) for c in P["used_colors"]}
    want_html = {br["color"] for sl in L.values() for br in sl["branches"]}
    if used_html != want_html:
        fails.append(("colors", f"colours used in the picture {sorted(map(str, used_html))} differ from the colours of the layout {sorted(want_html)}"))
    for name, html in P["colors"].items():
        if not (isinstance(html, str) and len(html) == 6):
            fails.append(("colors", f"colour {name} defined with value {html!r}"))
    # labels
    for s, sl in L.items():
        for br in sl["branches"]:
            if br["pseudo"] or br["gene"] is None:
                continue
            v = br["gene"]
            name = br["name"]
            if scene.lab is not None:
                fam = list(scene.lab[v]) if scene.ordered else sorted(scene.lab[v])
                parent = G.parent[v]
                same_as_parent = parent is not None and ((tuple(scene.lab[parent]) == tuple(scene.lab[v])) if scene.ordered else (frozenset(scene.lab[parent]) == frozenset(scene.lab[v])))
                if G.children[v] and name == "":
                    if not same_as_parent and fam:
                        fails.append(("labels", f"the label of object node {v} is omitted although its synteny differs from its parent's"))
                    continue
                if G.children[v] and same_as_parent and name != "":
                    fails.append(("labels", f"object node {v} repeats a label equal to its parent's"))
                    continue
                try:
                    lines = name.split("\\\\")
                    text = " ".join(lines)
                    shown = [tikz.unescape(w) for w in text.split(", ")] if text else []
                except tikz.TikzError as exc:
                    fails.append(("escape", f"label of object node {v}: {exc}"))
                    continue
                ok = shown == fam if scene.ordered else sorted(shown) == sorted(fam) and len(shown) == len(fam)
                if not ok:
                    fails.append(("labels", f"object node {v} shows {shown}, its families are {fam}"))
                width = params.event_label_width
                if width is not None:
                    for ln in lines:
                        if len(ln) > width and " " in ln.strip():
                            fails.append(("wrap", f"label line {ln!r} of object node {v} is wider than {width}"))
            elif not G.children[v]:
                # unlabelled leaf: <species part>\textsubscript{<id part>}
                full = G.name[v]
                sp_part, id_part = full.rsplit("_", 1)
                want = f"{tikz.escape_model(sp_part)}\\textsubscript{{{tikz.escape_model(id_part)}}}"
                if name != want:
                    fails.append(("escape", f"leaf {full!r} is labelled {name!r}, expected {want!r}"))
            elif name != "":
                fails.append(("labels", f"unlabelled reconciliation: internal node {v} shows {name!r}"))
    return fails


def judge_species_labels(scene, P, params):
    """Species names appear escaped (and wrapped) in the background paths."""
    fails = []
    texts = " ".join(p["text"] for p in P["paths"] if p["style"].startswith("species background"))
    import re

    shown = re.findall(r"node\[species label\] \{((?:[^{}]|\{[^{}]*\})*)\}", texts)
    want = []
    for v in scene.S.leaves():
        want.append(scene.S.name[v])
    got = []
    for s in shown:
        try:
            # species names are single words: the wrapper cannot break them, so no line break is present
            got.append(tikz.unescape(s))
        except tikz.TikzError as exc:
            fails.append(("escape", f"species label {s!r}: {exc}"))
            return fails
    if sorted(got) != sorted(want):
        fails.append(("escape", f"species labels shown {sorted(got)}, species names {sorted(want)}"))
    return fails


# ---------------------------------------------------------------- R-WRAP
def greedy_lines(words, width):
    lines = []
    cur = None
    for w in words:
        if cur is None:
            cur = w
        elif len(cur) + 1 + len(w) <= width:
            cur += " " + w
        else:
            lines.append(cur)
            cur = w
    if cur is not None:
        lines.append(cur)
    return lines


def judge_wrap(text, width, result):
    words = text.split()
    lines = result.split("\n") if result else []
    fails = []
    if " ".join(lines).split() != words:
        fails.append(f"words changed: {lines}")
    for ln in lines:
        if len(ln) > width and len(ln.split()) > 1:
            fails.append(f"line {ln!r} is wider than {width}")
        if ln != ln.strip() or ln == "":
            fails.append(f"line {ln!r} has stray spaces / is empty")
    g = greedy_lines(words, width)
    if len(lines) > len(g):
        fails.append(f"{len(lines)} lines, greedy wrapping needs {len(g)}")
    return fails
