"""C15 Generated TikZ is well-formed and labels are faithful."""
import itertools
import random

from rv import gen, render_stub
from rv.core import Inconclusive
from rv.props import _render as R
from rv.props.C13 import fixtures
from rv.refmodel import dtl, tikz

META = {
    "rule": (
        "Each evaluation is one real layout.compute + tikz.render (stub measurer) of a valid (super-)reconciliation with "
        "hostile names (letters, digits, underscores, backslashes), random and nested colour annotations (also on leaves), "
        "syntenies up to 12 families and wrap widths 1-30, or one call of balanced_wrap / tex.escape / format_synteny. Oracle "
        "R-TIKZ: balanced braces with control symbols tokenised, one picture, every statement terminated, every reccolorN "
        "used is defined before the picture with the right HTML value; expected colour of a node = colour of its nearest "
        "coloured ancestor-or-self in the ORIGINAL tree (black otherwise), loss markers follow their lineage; escape is "
        "inverted exactly (no bare underscore); a shown label un-escapes to exactly the node's families in order and is "
        "omitted only when equal to the parent's; R-WRAP: words kept, no line wider than the width unless a single word, no "
        "more lines than greedy. Non-trivial: coloured or labelled or hostile names; distinct = (sizes, #coloured nodes, "
        "nesting depth, labelled, wrap width, orientation) / (words, width)."
    ),
    "floors": {
        "quick": {"evaluations": 20000, "mon.wellformed": 600, "mon.colors": 300, "mon.nested_colors": 40, "mon.labels": 250, "mon.wrap": 15000, "mon.escape": 300},
        "thorough": {"evaluations": 120000, "mon.wellformed": 20000, "mon.colors": 10000, "mon.nested_colors": 2000, "mon.labels": 8000, "mon.wrap": 120000, "mon.escape": 8000},
    },
    "exhaustive": {"quick": True, "thorough": True},
    "space": {"quick": "wrapper: all word lists over a 6-word alphabet up to 4 words x widths 1-13; drawings: 600+ random scenes", "thorough": "wrapper: all word lists over a 6-word alphabet up to 5 words x widths 1-13 (121k); drawings: 20k random scenes"},
    "assumptions": ["family names contain no backslash (a doubled backslash inside a label cannot be told from the line break the renderer inserts)", "stub sizes instead of real TeX measurements"],
    "timeout": {"quick": 420, "thorough": 7200},
}

WORDS = ["a", "bb", "ccc,", "dddd", "eeeeee,", "fffffffff"]


def plan(tier, seed):
    q = tier == "quick"
    n = 16 if q else 32
    specs = [{"kind": "draw", "i": i, "count": 120 if q else 330} for i in range(n)]
    specs += [{"kind": "wrap", "i": i, "n": 4, "maxwords": 4 if q else 5} for i in range(4)]
    specs.append({"kind": "fixtures"})
    return specs


def check_scene(ctx, scene, rng, wrap=None):
    case = scene.full_case()
    for orient in ("VERTICAL", "HORIZONTAL"):
        params = R.perturbed_params(None, orient, wrap)
        stub = render_stub.Stub(lo=1, hi=60)
        try:
            lay, code = R.draw(scene, params, stub)
        except Exception as exc:  # noqa: BLE001
            ctx.viol("C15.crash", dict(case, orientation=orient), f"layout/render raised {type(exc).__name__}: {exc}")
            continue
        L = R.extract_layout(scene, lay)
        P = tikz.parse(code)
        ctx.count("evaluations")
        ctx.count("mon.wellformed")
        sub = dict(case, orientation=orient, wrap=list(wrap) if wrap else None)
        for pr in P["problems"][:3]:
            ctx.viol("C15.wellformed", sub, f"generated TikZ: {pr}")
        if P["problems"]:
            continue
        if scene.own_color:
            ctx.count("mon.colors")
            depth = max(sum(1 for a in scene.G.anc[v] if a in scene.own_color) for v in scene.G.nodes)
            if depth >= 2:
                ctx.count("mon.nested_colors")
        if scene.lab is not None:
            ctx.count("mon.labels")
        ctx.count("mon.escape")
        for mon, msg in R.judge_colors_labels(scene, L, P, params):
            ctx.viol(f"C15.{mon}", sub, msg)
        for mon, msg in R.judge_species_labels(scene, P, params):
            ctx.viol(f"C15.{mon}", sub, msg)
    ncol = len(scene.own_color)
    depth = max(sum(1 for a in scene.G.anc[v] if a in scene.own_color) for v in scene.G.nodes)
    ctx.sig((len(scene.G.leaves()), len(scene.S.leaves()), min(ncol, 5), depth, scene.lab is not None, scene.ordered, wrap[0] if wrap else None), ncol > 0 or scene.lab is not None)
    if depth >= 2 and scene.lab is not None:
        ctx.sample(case)


def check_wrap(ctx, words, width):
    from superrec2.utils.text import balanced_wrap

    text = " ".join(words)
    try:
        res = balanced_wrap(text, width)
    except Exception as exc:  # noqa: BLE001
        ctx.viol("C15.wrap", {"kind": "wrap", "words": list(words), "width": width}, f"balanced_wrap raised {type(exc).__name__}: {exc}")
        return
    ctx.count("evaluations")
    ctx.count("mon.wrap")
    for msg in R.judge_wrap(text, width, res):
        ctx.viol("C15.wrap", {"kind": "wrap", "words": list(words), "width": width}, msg)
    if len(words) >= 2 and (len(words) * 31 + width) % 17 == 0:
        ctx.sig(("wrap", tuple(words), width))


def check_escape(ctx, rng):
    from superrec2.model.synteny import format_synteny
    from superrec2.utils import tex

    alpha = "ab_\\1Z"
    for _ in range(40):
        s = "".join(rng.choice(alpha) for _ in range(rng.randint(0, 8)))
        e = tex.escape(s)
        ctx.count("evaluations")
        ctx.count("mon.escape")
        try:
            back = tikz.unescape(e)
        except tikz.TikzError as exc:
            ctx.viol("C15.escape", {"kind": "escape", "text": s}, f"escape({s!r}) = {e!r}: {exc}")
            continue
        if back != s or e != tikz.escape_model(s):
            ctx.viol("C15.escape", {"kind": "escape", "text": s}, f"escape({s!r}) = {e!r} does not invert to the original")
    for _ in range(20):
        fams = [f"f{rng.randint(0, 30)}" for _ in range(rng.randint(1, 12))]
        width = rng.choice([None, rng.randint(1, 30)])
        out = format_synteny(fams, width)
        ctx.count("evaluations")
        shown = " ".join(out.split("\n")).split(", ") if out else []
        if shown != fams:
            ctx.viol("C15.labels", {"kind": "format", "families": fams, "width": width}, f"format_synteny shows {shown}")
        if width is not None:
            for msg in R.judge_wrap(", ".join(fams), width, out):
                ctx.viol("C15.wrap", {"kind": "format", "families": fams, "width": width}, msg)


def canaries(ctx):
    ok = tikz.brace_balance("a{b}\\{c") is None and tikz.brace_balance("a{b") is not None and tikz.brace_balance("a}b{") is not None
    ok &= tikz.unescape("a\\_b\\\\c") == "a_b\\c"
    try:
        tikz.unescape("a_b")
        ok = False
    except tikz.TikzError:
        pass
    ok &= not R.judge_wrap("aa bb cc", 5, "aa bb\ncc") and bool(R.judge_wrap("aa bb cc", 5, "aa bb cc")) and bool(R.judge_wrap("aa bb cc", 5, "aa\nbb\ncc")) and bool(R.judge_wrap("aa bb cc", 5, "aa bb"))
    doc = "\\definecolor{reccolor0}{HTML}{000000}\n\\begin{tikzpicture}\n\\node[speciation={reccolor1}] at (1,2) {x};\n\\end{tikzpicture}\n"
    ok &= bool(tikz.parse(doc)["problems"]) and not tikz.parse(doc.replace("reccolor1", "reccolor0"))["problems"]
    ok &= bool(tikz.parse(doc.replace("reccolor1", "reccolor0").replace("{x};", "{x}"))["problems"])
    # colour oracle on a real scene with a wrong expectation
    case = {"kind": "render", "G": [["A_0", "A_1"], "B_2"], "S": ["A", "B"], "leafmap": {"A_0": "A", "A_1": "A", "B_2": "B"}, "costs": dict(gen.DEFAULT), "rseed": 3, "colors": True}
    scene = R.Scene(case)
    params = R.perturbed_params(None, "VERTICAL")
    lay, code = R.draw(scene, params, render_stub.Stub())
    L = R.extract_layout(scene, lay)
    P = tikz.parse(code)
    ok &= not [f for f in R.judge_colors_labels(scene, L, P, params) if f[0] == "colors"]
    v = scene.G.leaves()[0]
    scene.expected_color[v] = "123456"
    ok &= bool([f for f in R.judge_colors_labels(scene, L, P, params) if f[0] == "colors"])
    ctx.count("canaries")
    if not ok:
        raise Inconclusive("C15 canary accepted")


def run(ctx, spec):
    if spec["kind"] == "fixtures":
        return fixtures(ctx, "C15", lambda scene, rng: check_scene(ctx, scene, rng))
    if spec["kind"] == "wrap":
        idx = 0
        for n in range(0, spec["maxwords"] + 1):
            for words in itertools.product(WORDS, repeat=n):
                idx += 1
                if idx % spec["n"] != spec["i"]:
                    continue
                for width in range(1, 14):
                    check_wrap(ctx, words, width)
                if ctx.too_many():
                    return
        rng = ctx.rng("wrap")
        for _ in range(300):
            words = ["".join(rng.choice("abc,") for _ in range(rng.randint(1, 9))) for _ in range(rng.randint(1, 14))]
            check_wrap(ctx, words, rng.randint(1, 30))
        # one or two words longer than the wrap width (a long family name) among short ones: the only lines allowed to
        # exceed the width are those made of such a word alone
        for _ in range(spec.get("noverlong", 6000)):
            width = rng.randint(3, 20)
            n = rng.randint(4, 12)
            words = ["".join(rng.choice("abcdefg") for _ in range(rng.randint(1, max(1, min(width, 8))))) + "," for _ in range(n)]
            for pos in rng.sample(range(n), rng.choice([1, 1, 2])):
                words[pos] = "".join(rng.choice("xyz") for _ in range(width + rng.randint(1, 8)))
            ctx.count("mon.wrap_overlong_word")
            check_wrap(ctx, words, width)
        check_escape(ctx, rng)
        return
    rng = ctx.rng("draw")
    for k in range(spec["count"]):
        labelled = k % 3 != 0
        case = R.make_case(rng, 8, 5, labelled=labelled, hostile=k % 2 == 0, colors=k % 4 != 3, max_fam=rng.choice([3, 6, 12]))
        # wrap widths: DrawParams defaults / random widths / wrapping disabled (None) for both or either kind of label;
        # the modulus differs from the one of ``hostile`` so that every combination occurs
        wrap = [None, (rng.randint(1, 30), rng.randint(1, 30)), (None, None), (rng.randint(1, 30), None), (None, rng.randint(1, 30))][k % 5]
        if wrap is not None and None in wrap:
            ctx.count("mon.wrap_disabled")
        check_scene(ctx, R.Scene(case), rng, wrap)
        if ctx.too_many():
            return


def replay(ctx, case):
    if case.get("kind") == "fixture":
        return fixtures(ctx, "C15", lambda scene, rng: check_scene(ctx, scene, rng))
    if case.get("kind") == "wrap":
        return check_wrap(ctx, case["words"], case["width"])
    if case.get("kind") in ("escape", "format"):
        return check_escape(ctx, random.Random(0))
    base = {k: v for k, v in case.items() if k not in ("orientation", "wrap")}
    check_scene(ctx, R.Scene(base), random.Random(0), tuple(case["wrap"]) if case.get("wrap") else None)
