"""Shared driver for C02 (ordered) and C03 (unordered): optimum against the joint-DP reference model."""
import os
import copy
import itertools
import math

from rv import bridge, gen, solvercheck as SC, suite
from rv.bridge import ALL, ANY
from rv.core import Inconclusive, skippable
from rv.refmodel import dtl, label

INF = math.inf


# ------------------------------------------------------------------ judges
def judge(B, algo, obs, model_min, root_order=None):
    """Deciding oracle: returned collection vs model minimum.  -> list of (monitor, msg, details)."""
    kind = SC.kind_of(algo)
    if obs.exc is not None:
        return [("total", f"solver raised on a well-formed input: {obs.exc}", {})]
    fails = []
    if model_min == INF:
        if obs.outs:
            fails.append(("empty", f"{len(obs.outs)} solution(s) returned although the model has no valid solution (no compatible gene order)", {}))
        return fails
    if not obs.outs:
        return [("optimal", f"empty result although the model optimum is {model_min}", {"model_min": model_min})]
    for e in obs.ext:
        why = SC.validity(e, kind, root_order)
        if why:
            fails.append(("valid", f"returned solution is not valid: {why}", {}))
            continue
        x = SC.model_cost(e, B.c, kind)
        if x != model_min:
            fails.append(("optimal", f"returned cost {x} != model minimum {model_min}", {"returned": x, "model_min": model_min}))
    return fails


# ------------------------------------------------------------------- hooks
class Hooks:
    """L2 hooks on the private table builders and (unordered) the gain / lca set builders; L3 mutation
    sanitizer on the shared sets across decoding."""

    def __init__(self, kind):
        self.kind = kind
        self.tables = []
        self.sets = []
        self.saved = []
        self.attached = {}
        self.broken = set()
        if kind == "ordered":
            import superrec2.compute.super_reconciliation as mod

            self._wrap(mod, "_compute_spfs_table", lambda a, k, r: self.tables.append((tuple(a[1]) if len(a) > 1 else tuple(k["root_ordering"]), r)))
        else:
            import superrec2.compute.unordered_super_reconciliation as mod

            self._wrap(mod, "_compute_uspfs_table", lambda a, k, r: self.tables.append((None, r)))
            self._wrap(mod, "_compute_gain_sets", lambda a, k, r: self.sets.append(("gain", r, {n: set(v) for n, v in r.items()})))
            self._wrap(mod, "_compute_lca_sets", lambda a, k, r: self.sets.append(("lca", r, {n: set(v) for n, v in r.items()})))
        self.mod = mod

    def _wrap(self, mod, name, record):
        # VERIF_NO_L2=1 (self-test only): measure what the boundary monitors catch on their own
        self.attached[name] = hasattr(mod, name) and not os.environ.get("VERIF_NO_L2")
        if not self.attached[name]:
            return
        orig = getattr(mod, name)
        self.saved.append((mod, name, orig))

        def wrapper(*a, **k):
            r = orig(*a, **k)
            try:
                record(a, k, r)
            except Exception:  # noqa: BLE001 - a changed signature / return type silences the hook, never the solver
                self.attached[name] = False
                self.broken.add(name)
            return r

        setattr(mod, name, wrapper)

    def reset(self):
        self.tables = []
        self.sets = []

    def detach(self):
        for mod, name, orig in self.saved:
            setattr(mod, name, orig)


def judge_spfs_tables(B, algo, hooks, ctx):
    """Every finite cell of the real table equals the model optimum of that sub-problem, and vice versa."""
    fails = []
    allowed = SC.allowed_lca(B) if algo.startswith("base_") else None
    tabs = []
    label.ordered_solve(B.G, B.S, B.leafmap, B.c, B.syn, root_order=B.root_order, allowed=allowed, tables_out=tabs)
    by_ro = {ro: f for ro, f in tabs}
    ncell = 0
    for ro, table in hooks.tables:
        f = by_ro.get(tuple(ro))
        if f is None:
            fails.append(("table", f"solver built a table for root order {list(ro)} that the model does not enumerate", {}))
            continue
        subs = list(label.subseqs(ro))
        for v in B.G.nodes:
            for s in B.S.nodes:
                for mask, P in enumerate(subs):
                    got = bridge.num(table[B.gnode[v]][B.snode[s]][mask].value())
                    want = f[v].get((s, P), INF)
                    if not B.G.children[v]:
                        want = 0 if (s == B.leafmap[v] and P == tuple(B.syn[v])) else INF
                    elif v == B.G.root and P != ro:
                        continue
                    ncell += 1
                    if got != want:
                        fails.append(("table", f"SPFS table cell (node {v}, species {s}, synteny {list(P)}) = {got}, model optimum of that sub-problem = {want}", {}))
                        if len(fails) > 3:
                            return fails, ncell
    return fails, ncell


def judge_uspfs(B, algo, hooks, ctx):
    fails = []
    g, req, gains, allowed_top = label.unordered_frames(B.G, B.syn)
    n = 0
    for name, live, snap in hooks.sets:
        n += 1
        want = gains if name == "gain" else req
        for v in B.G.nodes:
            node = B.gnode[v]
            if node not in snap:
                fails.append(("sets", f"{name} sets lack node {v}", {}))
                continue
            w = set(want[v])
            if name == "gain" and not B.G.children[v]:
                pass
            if snap[node] != w:
                fails.append(("sets", f"{name} set of node {v} = {sorted(snap[node])}, model = {sorted(w)}", {}))
            if set(live[node]) != snap[node]:
                fails.append(("mutation", f"{name} set of node {v} was modified while decoding: {sorted(snap[node])} -> {sorted(live[node])}", {}))
    return fails, n


def judge_uspfs_tables(B, algo, hooks, ctx):
    """LCA-kind cells: optimum of the subtree with the node holding exactly its required content."""
    fails = []
    allowed = SC.allowed_lca(B) if algo.startswith("base_") else None
    tabs = []
    label.unordered_solve(B.G, B.S, B.leafmap, B.c, B.syn, allowed=allowed, tables_out=tabs)
    f, req, gains = tabs[0]
    import superrec2.compute.unordered_super_reconciliation as mod

    lca_kind = mod.SyntenyAssignment.LCA
    ncell = 0
    for _, table in hooks.tables:
        for v in B.G.nodes:
            for s in B.S.nodes:
                got = bridge.num(table[B.gnode[v]][B.snode[s]][lca_kind].value())
                if not B.G.children[v]:
                    want = 0 if s == B.leafmap[v] else INF
                else:
                    want = f[v].get((s, req[v]), INF)
                ncell += 1
                if got != want:
                    fails.append(("table", f"USPFS table cell (node {v}, species {s}, LCA synteny) = {got}, model optimum of that sub-problem = {want}", {}))
                    if len(fails) > 3:
                        return fails, ncell
    return fails, ncell


# -------------------------------------------------------------- check_case
@skippable
def check_case(ctx, prop, case, algos, report=None, hooks=None, tables=True, selfcheck=False, history=True):
    report = report or (lambda mon, msg, **d: ctx.viol(f"{prop}.{mon}", case, msg, **d))
    B = bridge.Built(case)
    kind = SC.kind_of(algos[0])
    for algo in algos:
        mn, _ = suite.model_solve(B, algo, canonical=False)
        if selfcheck:
            allowed = SC.allowed_lca(B) if algo.startswith("base_") else None
            if kind == "ordered":
                bf, _ = label.ordered_brute(B.G, B.S, B.leafmap, B.c, B.syn, root_order=B.root_order, allowed=allowed)
            else:
                bf, _ = label.unordered_brute(B.G, B.S, B.leafmap, B.c, B.syn, allowed=allowed)
                can, _ = label.unordered_solve(B.G, B.S, B.leafmap, B.c, B.syn, allowed=allowed, canonical_only=True)
                ctx.count("selfcheck.canonical_vs_all")
                if can != mn:
                    report("canonical", f"{algo}: the canonical labellings cost {can} but some other labelling costs {mn}", algo=algo)
            ctx.count("selfcheck.dp_vs_brute")
            if bf != mn:
                raise Inconclusive(f"oracle self-check failed: joint DP {mn} != explicit enumeration {bf} on {case}")
        for pol in (ALL, ANY):
            if hooks:
                hooks.reset()
            obs = SC.call(algo, B.inp, pol)
            ctx.count("evaluations")
            ctx.count("mon.optimal")
            if mn == INF:
                ctx.count("mon.empty_expected")
            for mon, msg, d in judge(B, algo, obs, mn, B.root_order):
                report(mon, f"{algo}/{pol.name}: {msg}", algo=algo, policy=pol.name, **d)
            if hooks and obs.exc is None and B.G.is_binary() and B.S.is_binary():
                try:
                    if kind == "ordered" and tables and hooks.tables:
                        fails, n = judge_spfs_tables(B, algo, hooks, ctx)
                        ctx.count("mon.table_cells", n)
                        for mon, msg, d in fails:
                            report(mon, f"{algo}/{pol.name}: {msg}", algo=algo, policy=pol.name, **d)
                    if kind == "unordered":
                        fails, n = judge_uspfs(B, algo, hooks, ctx)
                        ctx.count("mon.sets", n)
                        for mon, msg, d in fails:
                            report(mon, f"{algo}/{pol.name}: {msg}", algo=algo, policy=pol.name, **d)
                        if tables and hooks.tables:
                            fails, n = judge_uspfs_tables(B, algo, hooks, ctx)
                            ctx.count("mon.table_cells", n)
                            for mon, msg, d in fails:
                                report(mon, f"{algo}/{pol.name}: {msg}", algo=algo, policy=pol.name, **d)
                except (KeyError, TypeError, AttributeError, IndexError, ValueError) as exc:
                    # the private table / set structures are not what the hook expects (refactored): auxiliary monitor off
                    if len(ctx.notes) < 20:
                        ctx.notes.append(f"hook not attached: table/set structures of {algo} could not be read ({type(exc).__name__})")
                    hooks.tables, hooks.sets = [], []
        if algo == algos[0]:
            one, nopt = suite.one_optimal_mapping(B)
            ctx.sig(suite.super_signature(B, algo, mn, None, one), len(B.G.leaves()) >= 2 and (mn == INF or mn > 0))
    if history and B.G.is_binary() and B.S.is_binary() and len(B.G.leaves()) >= 2 and sum(map(ord, repr(sorted(case["leafmap"].items())))) % 3 == 0:
        # history: the cost table of the SAME input object is changed in place (dup and floss raised: stays coherent),
        # then every algorithm runs again on it
        c2 = dict(B.c, dup=B.c["dup"] + 2, floss=B.c["floss"] + 1, hgt=(INF if (B.c["hgt"] != INF and B.c["dup"] % 2 == 0) else (3 if B.c["hgt"] == INF else B.c["hgt"] + 1)))
        B.set_costs_inplace(c2)
        if kind == "unordered" and len(B.G.leaves()) >= 2:
            # ... and the synteny of one leaf is replaced in place (the mapping is a plain dict of the same input object)
            lv = B.G.leaves()[0]
            other = B.syn[B.G.leaves()[-1]]
            if tuple(other) != tuple(B.syn[lv]):
                B.syn = dict(B.syn)
                B.syn[lv] = tuple(other)
                B.inp.leaf_syntenies[B.gnode[lv]] = B._syn_value(list(other))
                ctx.count("mon.after_inplace_synteny_change")
        for algo in algos:
            mn2, _ = suite.model_solve(B, algo, canonical=False)
            obs = SC.call(algo, B.inp, ALL if len(B.G.leaves()) <= 6 else ANY)
            ctx.count("evaluations")
            ctx.count("mon.after_inplace_cost_change")
            for mon, msg, d in judge(B, algo, obs, mn2, B.root_order):
                report(mon, f"{algo} after the cost table of the same input object was changed in place to {c2}: {msg}", algo=algo, **d)
    return B


def exhaustive_cases(kind, max_obj, max_sp, fams, costs):
    ordered = kind == "ordered"
    for Gn, Sn, lm in gen.exhaustive_inputs(max_obj, max_sp, mirrored=False):
        leaves = list(lm)
        for syn in gen.all_subset_syntenies(leaves, fams, ordered_variants=ordered):
            for c in costs:
                yield {"kind": "super", "G": Gn, "S": Sn, "leafmap": lm, "syn": syn, "costs": c}


def run_generic(ctx, prop, kind, algos, spec):
    hooks = Hooks(kind)
    for name, ok in hooks.attached.items():
        if not ok:
            ctx.notes.append(f"hook not attached: {name}")
    try:
        if spec["kind"] == "exh":
            import random

            costs = gen.stratified_costs(random.Random(ctx.seed * 31 + 5), spec["ncost"], plain=False)
            idx = 0
            for case in exhaustive_cases(kind, spec["max_obj"], spec["max_sp"], gen.families(spec["nfam"]), costs):
                idx += 1
                if idx % spec["n"] != spec["i"]:
                    continue
                case["algos"] = list(algos)
                small = len(case["leafmap"]) <= 3
                check_case(ctx, prop, case, algos, hooks=hooks, selfcheck=small and idx % 7 == 0)
                if len(case["leafmap"]) >= 3:
                    ctx.sample(case)
                if ctx.too_many() or ctx.out_of_time():
                    return
        elif spec["kind"] == "catsp":
            # long species lineages (caterpillars of 10-14 leaves) with an expensive transfer: receivers many levels
            # away, placements several levels above the LCA competing with a transfer
            from rv.refmodel import trees as RT

            rng = ctx.rng("catsp")
            for k in range(spec["count"]):
                ns = rng.randint(10, 14)
                spl = [f"L{i}" for i in range(ns)]
                Sn = RT.random_tree_shape(rng, spl, kind="cat")
                no = rng.randint(3, 5)
                Gn = RT.random_tree_shape(rng, gen.object_labels(no))
                lm = {g: rng.choice(spl) for g in gen.object_labels(no)}
                cost = {"spe": 0, "dup": rng.choice([1, 1, 2, 3]), "hgt": rng.choice([3, 5, 7, 9, 12]), "floss": rng.choice([1, 1, 2]), "sloss": rng.choice([0, 1, 1])}
                case = {"kind": "super", "G": Gn, "S": Sn, "leafmap": lm, "costs": cost,
                        "syn": gen.random_syntenies(rng, list(lm), 2, ordered=kind == "ordered", consistent_p=1.0), "algos": list(algos)}
                check_case(ctx, prop, case, algos, hooks=hooks)
                ctx.count("long_lineage_cases")
                if ctx.too_many() or ctx.out_of_time():
                    return
        elif spec["kind"] == "deep":
            rng = ctx.rng("deep")
            for k in range(spec["count"]):
                case = gen.deep_super_case(rng, ordered=kind == "ordered", min_obj=spec.get("min_obj", 5), max_obj=spec.get("max_obj", 7), max_fam=spec.get("max_fam", 5),
                                           max_sp=spec.get("max_sp", 4))
                if spec.get("min_obj", 5) >= 8:
                    case["costs"] = gen.tame(case["costs"], len(case["leafmap"]))
                    if kind == "ordered":
                        # one prescribed root order (the oracle and the solver would otherwise go through every
                        # linear extension of up to 5 families on a 10-leaf tree)
                        ro = label.one_extension([tuple(s) for s in case["syn"].values()], rng)
                        if ro is None:
                            continue
                        case["root_order"] = list(ro)
                    ctx.count("big_cases")
                case["algos"] = list(algos)
                check_case(ctx, prop, case, algos, hooks=hooks)
                ctx.count("deep_cases")
                if k < 2:
                    ctx.sample(case)
                if ctx.too_many() or ctx.out_of_time():
                    return
        else:
            rng = ctx.rng("rand")
            for k in range(spec["count"]):
                case = suite.random_super_case(
                    rng, algos[0], spec["max_obj"], spec["max_sp"], spec["max_fam"],
                    consistent_p=spec.get("consistent_p", 0.9), root_order_p=spec.get("root_order_p", 0.25), min_obj=spec.get("min_obj", 2),
                    min_sp=spec.get("min_sp", 1),
                )
                if spec.get("min_sp", 1) >= 5:
                    ctx.count("wide_species_cases")
                if spec.get("cheap_hgt"):
                    # host switches: a transfer costs less than a duplication or a full loss, speciations are free - whole
                    # subtrees are moved to unrelated lineages in the optimum
                    case["costs"] = {"spe": 0, "dup": rng.randint(3, 5), "hgt": 1, "floss": rng.randint(2, 4), "sloss": rng.randint(0, 2)}
                    ctx.count("cheap_transfer_cases")
                case["algos"] = list(algos)
                tiny = len(case["leafmap"]) <= 3 and len(case["S"]) <= 3 if not isinstance(case["S"], str) else True
                check_case(ctx, prop, case, algos, hooks=hooks, selfcheck=tiny and k % 5 == 0)
                ctx.count("random_cases")
                if len(case["leafmap"]) >= 4:
                    ctx.sample(case)
                if ctx.too_many() or ctx.out_of_time():
                    return
    finally:
        hooks.detach()


def replay_generic(ctx, prop, kind, case):
    hooks = Hooks(kind)
    try:
        check_case(ctx, prop, case, case.get("algos") or ([case["algo"]] if case.get("algo") else (["ext_spfs", "base_spfs"] if kind == "ordered" else ["superdtl", "base_uspfs"])), hooks=hooks)
    finally:
        hooks.detach()


def known_generic(ctx, prop, kind, finding):
    wit = finding["witness"]
    case = wit["case"]
    got = []
    algos = wit["expect"]["algos"]
    check_case(ctx, prop, case, algos, report=lambda mon, msg, **d: got.append((mon, msg, d)), hooks=None, history=False)
    exp = wit["expect"]
    matched = [g for g in got if g[0] in exp["monitors"] and g[2].get("algo") in exp["algos"]]
    other = [g for g in got if g not in matched]
    if matched:
        ctx.known.append(f"{finding['id']} {finding['text']}")
    else:
        ctx.notes.append(f"known finding {finding['id']} no longer reproduces")
    for mon, msg, d in other:
        ctx.viol(f"{prop}.{mon}", case, msg, **d)
