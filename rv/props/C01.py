"""C01 General DTL reconciliation is optimal; enumerator exactly-once; total."""
import os
import collections
import math

from rv import bridge, gen, solvercheck as SC
from rv.bridge import ALL, ANY
from rv.core import Inconclusive, skippable
from rv.refmodel import dtl
from rv.refmodel.trees import T

META = {
    "rule": (
        "Each evaluation is one call of reconcile_thl / reconcile_exhaustive / generate_all on an input "
        "(object tree, species tree, leaf assignment, cost vector in the region spe <= dup + 2*floss). "
        "Bounded-exhaustive part: every binary shape (canonical + mirrored child order) x every leaf "
        "assignment x a stratified set of cost vectors; random part: seeded random inputs judged by the DP "
        "oracle. A case is non-trivial when the object tree has >=2 leaves and the optimum contains a "
        "duplication, transfer or loss; distinct = distinct signature (#object leaves, #species leaves, "
        "#spe, #dup, #hgt, #losses of an optimum, |optimal set| bucket, hgt=inf, floss=0, spe>0)."
    ),
    "floors": {
        "quick": {"evaluations": 2000, "mon.optimal": 1000, "mon.genall": 300, "mon.table_cells": 2000, "selfcheck.bf_vs_dp": 100},
        "thorough": {"evaluations": 50000, "mon.optimal": 20000, "mon.genall": 5000, "mon.table_cells": 50000},
    },
    "exhaustive": {"quick": True, "thorough": True},
    "space": {
        "quick": "all inputs with <=3 object leaves x <=3 species leaves (all assignments, mirrored shapes) x 40 cost vectors; + 1.9k random inputs up to 8x8 judged by the DP oracle (brute force on the small ones)",
        "thorough": "all inputs with <=4 object leaves x <=4 species leaves x 70 cost vectors; full coherent grid on <=3x3; + random up to 8x8",
    },
    "assumptions": [
        "reference model R-DTL (definition-level enumeration, cross-checked against an independent DP) is the judge",
        "cost vectors restricted to spe <= dup + 2*floss as the property is quantified (F-COHERENCE outside)",
    ],
    "timeout": {"quick": 420, "thorough": 5400},
}

NSHARD = 16


def plan(tier, seed):
    if tier == "quick":
        return [{"kind": "mix", "i": i, "n": NSHARD, "max_obj": 3, "max_sp": 3, "ncost": 40, "nrand": 120, "rand_obj": 8, "rand_sp": 8} for i in range(NSHARD)]
    specs = [{"kind": "mix", "i": i, "n": 32, "max_obj": 4, "max_sp": 4, "ncost": 70, "nrand": 700, "rand_obj": 8, "rand_sp": 8} for i in range(32)]
    specs += [{"kind": "grid33", "i": i, "n": 8} for i in range(8)]
    specs += [{"kind": "bf5", "i": i, "n": 16, "count": 2500} for i in range(16)]
    return specs


# --------------------------------------------------------------------- hooks
class TableHook:
    """L2: capture the THLTable at the return of _compute_thl_table."""

    def __init__(self):
        import superrec2.compute.reconciliation as mod

        self.mod = mod
        # VERIF_NO_L2=1 (self-test only): measure what the boundary monitors catch on their own
        self.attached = hasattr(mod, "_compute_thl_table") and not os.environ.get("VERIF_NO_L2")
        self.last = None
        if self.attached:
            self.orig = mod._compute_thl_table

            def wrapper(*a, **k):
                self.last = self.orig(*a, **k)
                return self.last

            mod._compute_thl_table = wrapper

    def detach(self):
        if self.attached:
            self.mod._compute_thl_table = self.orig


def judge_outputs(B, obs, model_min, n_valid):
    """Deciding oracle for a returned collection.  Returns list of (monitor, msg, details)."""
    fails = []
    if obs.exc is not None:
        return [("total", f"solver raised on a well-formed input: {obs.exc}", {})]
    if n_valid and not obs.outs:
        fails.append(("optimal", "empty result although valid reconciliations exist", {"model_min": model_min}))
    for e in obs.ext:
        why = SC.validity(e, "plain")
        if why:
            fails.append(("valid", f"returned reconciliation is not valid: {why}", {}))
            continue
        x = SC.model_cost(e, B.c, "plain")
        if x != model_min:
            fails.append(("optimal", f"returned cost {x} != model minimum {model_min}", {"returned": x, "model_min": model_min}))
    return fails


def judge_genall(model_set, log):
    """Offline exactly-once / no-loss check of the generate_all event log."""
    cnt = collections.Counter(log)
    fails = []
    if None in cnt:
        fails.append(("genall", "generate_all yielded a malformed reconciliation", {}))
    dup = [k for k, n in cnt.items() if n > 1 and k is not None]
    if dup:
        fails.append(("genall", f"generate_all yielded {len(dup)} reconciliation(s) more than once", {"example": sorted(dup[0])}))
    missing = model_set - set(cnt)
    extra = set(k for k in cnt if k is not None) - model_set
    if missing:
        fails.append(("genall", f"generate_all missed {len(missing)} valid reconciliation(s)", {"example": sorted(next(iter(missing)))}))
    if extra:
        fails.append(("genall", f"generate_all yielded {len(extra)} invalid reconciliation(s)", {"example": sorted(next(iter(extra)))}))
    return fails


def judge_table(B, table, best):
    fails = []
    ncells = 0
    for v in B.G.nodes:
        for s in B.S.nodes:
            val = bridge.num(table[B.gnode[v]][B.snode[s]].value())
            ncells += 1
            if val != best[v][s]:
                fails.append(("table", f"THL table cell (node {v}, species {s}) = {val}, model optimum of that sub-problem = {best[v][s]}", {}))
                if len(fails) > 3:
                    return fails, ncells
    return fails, ncells


@skippable
def check_case(ctx, case, report=None, table_hook=None, do_genall=True, brute=True, history=True):
    """One input: thl (ALL, ANY), exh (ALL, ANY), generate_all, table hook."""
    report = report or (lambda mon, msg, **d: ctx.viol(f"C01.{mon}", case, msg, **d))
    B = bridge.Built(case)
    G, S, c = B.G, B.S, B.c
    best = dtl.dp_table(G, S, B.leafmap, c)
    dp_min = min(best[G.root].values())
    one = None
    nopt = None
    if brute:
        recs = list(dtl.all_recs(G, S, B.leafmap))
        costs = [dtl.rec_cost(G, S, m, c) for m in recs]
        model_min = min(costs)
        n_valid = len(recs)
        opt = [m for m, x in zip(recs, costs) if x == model_min]
        one, nopt = opt[0], len(opt)
        ctx.count("selfcheck.bf_vs_dp")
        if model_min != dp_min:
            raise Inconclusive(f"oracle self-check failed: brute force {model_min} != DP {dp_min} on {case}")
    else:
        model_min, n_valid = dp_min, 1
        mn, sols = dtl.dp_opt_set(G, S, B.leafmap, c, cap=50)
        if sols:
            one, nopt = sols[0], len(sols)
        elif sols is None:
            nopt = 51
            one = dtl.lca_mapping(G, S, B.leafmap)
    algos = ["thl", "exh"] if len(G.leaves()) <= 6 else ["thl"]
    for algo in algos:
        for pol in (ALL, ANY):
            if table_hook:
                table_hook.last = None
            obs = SC.call(algo, B.inp, pol)
            ctx.count("evaluations")
            ctx.count("mon.optimal")
            for mon, msg, d in judge_outputs(B, obs, model_min, n_valid):
                report(mon, f"{algo}/{pol.name}: {msg}", algo=algo, policy=pol.name, **d)
            if algo == "thl" and table_hook and table_hook.attached and table_hook.last is not None and obs.exc is None:
                try:
                    fails, ncells = judge_table(B, table_hook.last, best)
                except (KeyError, TypeError, AttributeError, IndexError, ValueError) as exc:
                    fails, ncells = [], 0
                    table_hook.attached = False
                    ctx.notes.append(f"hook not attached: the THL table could not be read ({type(exc).__name__}); verdict rests on L0")
                ctx.count("mon.table_cells", ncells)
                for mon, msg, d in fails:
                    report(mon, f"{pol.name}: {msg}", algo=algo, policy=pol.name, **d)
    if do_genall and brute:
        from superrec2.compute.exhaustive import generate_all

        log = []
        try:
            for out in generate_all(B.inp):
                log.append(bridge.canon_out(out))
            ctx.count("evaluations")
            ctx.count("mon.genall")
            ctx.count("mon.genall_events", len(log))
            model_set = set(bridge.canon(G, S, m) for m in recs)
            for mon, msg, d in judge_genall(model_set, log):
                report(mon, msg, **d)
        except Exception as exc:  # noqa: BLE001
            report("total", f"generate_all raised on a well-formed input: {type(exc).__name__}: {exc}")
    ctx.sig(SC.signature(B, one, model_min, nopt), SC.nontrivial(B, one))
    if history and len(G.leaves()) >= 2 and sum(map(ord, repr(sorted(case["leafmap"].items())))) % 3 == 0:
        # history: the cost table of the SAME input object is changed in place, then the solver runs again
        c2 = dict(c, dup=c["dup"] + 2, hgt=(math.inf if (c["hgt"] != math.inf and c["dup"] % 2 == 0) else (3 if c["hgt"] == math.inf else c["hgt"] + 1)))
        B.set_costs_inplace(c2)
        min2 = min(dtl.dp_table(G, S, B.leafmap, c2)[G.root].values())
        for algo2 in algos:
            for pol in (ALL, ANY):
                obs = SC.call(algo2, B.inp, pol)
                ctx.count("evaluations")
                ctx.count("mon.after_inplace_cost_change")
                for mon, msg, d in judge_outputs(B, obs, min2, 1):
                    report(mon, f"{algo2}/{pol.name} after the cost table of the same input object was changed in place to {bridge_costs_text(c2)}: {msg}", algo=algo2, policy=pol.name, **d)
    return B


def bridge_costs_text(c):
    return ", ".join(f"{k}={'inf' if v == math.inf else v}" for k, v in c.items())


def canaries(ctx):
    """The oracles must reject hand-made bad observations."""
    case = {"G": [["g0", "g1"], "g2"], "S": [["A", "B"], "C"], "leafmap": {"g0": "A", "g1": "B", "g2": "A"},
            "costs": dict(gen.DEFAULT)}
    B = bridge.Built(case)
    recs = list(dtl.all_recs(B.G, B.S, B.leafmap))
    costs = [dtl.rec_cost(B.G, B.S, m, B.c) for m in recs]
    mn = min(costs)
    worse = next(m for m, x in zip(recs, costs) if x > mn)
    o = SC.Obs()
    o.outs = [B.output(worse)]
    o.ext = [bridge.extract(x) for x in o.outs]
    ok = any(mon == "optimal" for mon, _, _ in judge_outputs(B, o, mn, len(recs)))
    bad = dict(worse)
    bad[B.G.root] = B.leafmap[B.G.leaves()[0]]  # root below its children: invalid
    o2 = SC.Obs()
    o2.outs = [B.output(bad)]
    o2.ext = [bridge.extract(x) for x in o2.outs]
    ok &= any(mon == "valid" for mon, _, _ in judge_outputs(B, o2, mn, len(recs)))
    o3 = SC.Obs()
    ok &= any(mon == "optimal" for mon, _, _ in judge_outputs(B, o3, mn, len(recs)))
    ms = set(bridge.canon(B.G, B.S, m) for m in recs)
    log = [bridge.canon(B.G, B.S, m) for m in recs]
    ok &= bool(judge_genall(ms, log + [log[0]])) and bool(judge_genall(ms, log[1:])) and not judge_genall(ms, log)
    best = dtl.dp_table(B.G, B.S, B.leafmap, B.c)
    best2 = {v: dict(d) for v, d in best.items()}
    best2[B.G.root][B.S.root] += 1
    class _Cell:  # the canary needs a table-shaped object, not the package's private table builder
        def __init__(self, v):
            self.v = v

        def value(self):
            return self.v

    table = {B.gnode[v]: {B.snode[s]: _Cell(best[v][s]) for s in B.S.nodes} for v in B.G.nodes}
    ok &= bool(judge_table(B, table, best2)[0]) and not judge_table(B, table, best)[0]
    ctx.count("canaries")
    if not ok:
        raise Inconclusive("C01 canary accepted by an oracle")


def run(ctx, spec):
    hook = TableHook()
    if not hook.attached:
        ctx.notes.append("hook not attached: _compute_thl_table (table monitor off, verdict rests on L0)")
    try:
        kind = spec["kind"]
        if kind == "mix":
            rng = ctx.rng("costs")  # same cost sample in every shard
            import random

            costs = gen.stratified_costs(random.Random(ctx.seed * 7919 + 1), spec["ncost"], plain=True)
            idx = 0
            for Gn, Sn, lm in gen.exhaustive_inputs(spec["max_obj"], spec["max_sp"]):
                for c in costs:
                    idx += 1
                    if idx % spec["n"] != spec["i"]:
                        continue
                    case = {"kind": "plain", "G": Gn, "S": Sn, "leafmap": lm, "costs": c}
                    B = check_case(ctx, case, table_hook=hook)
                    if B is not None and len(B.G.leaves()) >= 3 and len(B.S.leaves()) >= 2:
                        ctx.sample(case)
                    if ctx.too_many():
                        return
            rng = ctx.rng("chain")
            for _ in range(max(10, spec["nrand"] // 3)):
                Gn, Sn, lm, c = gen.chain_case(rng)
                case = {"kind": "plain", "G": Gn, "S": Sn, "leafmap": lm, "costs": c}
                check_case(ctx, case, table_hook=hook, brute=False, do_genall=False)
                ctx.count("chain_cases")
                if ctx.too_many():
                    return
            rng = ctx.rng("block")
            for _ in range(max(10, spec["nrand"] // 4)):
                Gn, Sn, lm = gen.block_dup_input(rng, 8)
                case = {"kind": "plain", "G": Gn, "S": Sn, "leafmap": lm, "costs": gen.tame(gen.random_cost(rng, plain=True), len(lm))}
                check_case(ctx, case, table_hook=hook, brute=False, do_genall=False)
                ctx.count("block_duplication_cases")
                if ctx.too_many():
                    return
            rng = ctx.rng("rand")
            for _ in range(spec["nrand"]):
                Gn, Sn, lm = gen.random_input(rng, spec["rand_obj"], spec["rand_sp"], min_obj=2)
                c = gen.tame(gen.random_cost(rng, plain=True), len(lm))
                case = {"kind": "plain", "G": Gn, "S": Sn, "leafmap": lm, "costs": c}
                small = len(lm) <= 4 and len(T(Sn).nodes) <= 7
                check_case(ctx, case, table_hook=hook, brute=small, do_genall=small)
                ctx.count("random_cases")
                if ctx.too_many():
                    return
        elif kind == "grid33":
            costs = gen.coherent_grid(plain=True)
            idx = 0
            for Gn, Sn, lm in gen.exhaustive_inputs(3, 3):
                for c in costs:
                    idx += 1
                    if idx % spec["n"] != spec["i"]:
                        continue
                    check_case(ctx, {"kind": "plain", "G": Gn, "S": Sn, "leafmap": lm, "costs": c}, table_hook=hook, do_genall=False)
                    if ctx.too_many():
                        return
        elif kind == "bf5":
            rng = ctx.rng("bf5")
            for _ in range(spec["count"]):
                Gn, Sn, lm = gen.random_input(rng, 5, 6, min_obj=5)
                c = gen.random_cost(rng, plain=True)
                case = {"kind": "plain", "G": Gn, "S": Sn, "leafmap": lm, "costs": c}
                B = bridge.Built(case)
                if dtl.count_recs(B.G, B.S, B.leafmap) > 40000:
                    ctx.count("skipped_large")
                    continue
                check_case(ctx, case, table_hook=hook, brute=True, do_genall=True)
                if ctx.too_many():
                    return
    finally:
        hook.detach()


def replay(ctx, case):
    hook = TableHook()
    try:
        B = bridge.Built(case)
        small = dtl.count_recs(B.G, B.S, B.leafmap) <= 40000
        check_case(ctx, case, table_hook=hook, brute=small, do_genall=small)
    finally:
        hook.detach()


def known(ctx, finding):
    """Replay a listed known finding; anything else it shows is a violation."""
    wit = finding["witness"]
    case = wit["case"]
    got = []
    check_case(ctx, case, report=lambda mon, msg, **d: got.append((mon, msg, d)), brute=True, do_genall=False, history=False)
    exp = wit["expect"]
    matched = [g for g in got if g[0] in exp["monitors"] and g[2].get("algo") in exp["algos"]]
    other = [g for g in got if g not in matched]
    if matched:
        ctx.known.append(f"{finding['id']} {finding['text']}")
    else:
        ctx.notes.append(f"known finding {finding['id']} no longer reproduces")
    for mon, msg, d in other:
        ctx.viol(f"C01.{mon}", case, msg, **d)
