"""Boundary between plain-data cases / reference models and the real superrec2 objects.

Everything the monitors learn about a result is extracted here by the harness itself
(nodes identified by clade), never through to_dict() or node names of the code under test.
"""
import math

from ete3 import Tree
from infinity import inf as INFTY, is_infinite

from superrec2.model.reconciliation import (
    EdgeEvent,
    NodeEvent,
    ReconciliationInput,
    ReconciliationOutput,
    SuperReconciliationInput,
    SuperReconciliationOutput,
)
from superrec2.utils.dynamic_programming import RetentionPolicy
from superrec2.utils.trees import LowestCommonAncestor

from rv.core import parse_cost
from rv.refmodel.trees import T, default_names

ALL = RetentionPolicy.ALL
ANY = RetentionPolicy.ANY


def algos():
    from superrec2.compute.exhaustive import reconcile_exhaustive
    from superrec2.compute.reconciliation import reconcile_lca, reconcile_thl
    from superrec2.compute.super_reconciliation import sreconcile_base_spfs, sreconcile_extended_spfs
    from superrec2.compute.unordered_super_reconciliation import (
        usreconcile_base_uspfs,
        usreconcile_extended_uspfs,
    )

    return {
        "exh": reconcile_exhaustive,
        "lca": reconcile_lca,
        "thl": reconcile_thl,
        "base_spfs": sreconcile_base_spfs,
        "ext_spfs": sreconcile_extended_spfs,
        "base_uspfs": usreconcile_base_uspfs,
        "superdtl": usreconcile_extended_uspfs,
    }


def mk_costs(c):
    return {
        NodeEvent.SPECIATION: c["spe"],
        NodeEvent.DUPLICATION: (INFTY if c["dup"] == math.inf else c["dup"]),
        NodeEvent.HORIZONTAL_TRANSFER: (INFTY if c["hgt"] == math.inf else c["hgt"]),
        EdgeEvent.FULL_LOSS: c["floss"],
        EdgeEvent.SEGMENTAL_LOSS: c.get("sloss", 1),
    }


def num(x):
    """infinity.inf -> math.inf at the oracle boundary."""
    try:
        if is_infinite(x):
            return math.inf if x > 0 else -math.inf
    except TypeError:
        pass
    return x


def ete_by_clade(tree):
    """clade (frozenset of leaf names) -> ete node; computed by the harness."""
    res = {}
    clade = {}
    for node in tree.traverse("postorder"):
        if node.is_leaf():
            clade[node] = frozenset([node.name])
        else:
            clade[node] = frozenset().union(*(clade[c] for c in node.children))
        res[clade[node]] = node
    return res, clade


def model_from_ete(tree):
    """Model tree of an ete3 tree plus ete node -> model id."""

    def nest(node):
        if node.is_leaf():
            return node.name
        return [nest(c) for c in node.children]

    t = T(nest(tree))
    ids = {}
    order = list(tree.traverse("preorder"))
    for node, v in zip(order, t.nodes):
        ids[node] = v
    # sanity: ete preorder == model preorder
    for node, v in ids.items():
        assert len(node.children) == len(t.children[v])
    return t, ids


class Built:
    """A case turned into model objects and the real input object."""

    def __init__(self, case, named=True, klass=None):
        self.case = case
        self.G = T(case["G"])
        self.S = T(case["S"])
        self.c = parse_cost(case["costs"]) if case.get("costs") else None
        gl = {self.G.name[v]: v for v in self.G.leaves()}
        sl = {self.S.name[v]: v for v in self.S.nodes if self.S.name[v] is not None}
        self.leafmap = {gl[g]: sl[s] for g, s in case["leafmap"].items()}
        self.syn = None
        if case.get("syn") is not None:
            self.syn = {gl[g]: tuple(fs) for g, fs in case["syn"].items()}
        self.root_order = tuple(case["root_order"]) if case.get("root_order") else None
        gn = default_names(self.G, "O") if named else None
        sn = default_names(self.S, "S") if named else None
        self.gt = Tree(self.G.newick(names=gn), format=1)
        self.st = Tree(self.S.newick(names=sn), format=1)
        gby, _ = ete_by_clade(self.gt)
        sby, _ = ete_by_clade(self.st)
        self.gnode = {v: gby[self.G.clade(v)] for v in self.G.nodes}
        self.snode = {v: sby[self.S.clade(v)] for v in self.S.nodes}
        self.gid = {n: v for v, n in self.gnode.items()}
        self.sid = {n: v for v, n in self.snode.items()}
        lm = {self.gnode[v]: self.snode[s] for v, s in self.leafmap.items()}
        costs = mk_costs(self.c) if self.c is not None else None
        kw = {} if costs is None else {"costs": costs}
        if self.syn is None:
            self.inp = ReconciliationInput(self.gt, LowestCommonAncestor(self.st), lm, **kw)
        else:
            ls = {self.gnode[v]: self._syn_value(fs) for v, fs in self.syn.items()}
            if self.root_order is not None:
                ls[self.gt] = self._syn_value(self.root_order)
            self.inp = SuperReconciliationInput(self.gt, LowestCommonAncestor(self.st), lm, leaf_syntenies=ls, **kw)

    def set_costs_inplace(self, c):
        """History workload: change the cost table of the SAME input object in place (the package's own tests tune
        costs this way: ``rec_input.costs[NodeEvent.DUPLICATION] = 3``)."""
        self.c = dict(c)
        for k, v in mk_costs(self.c).items():
            self.inp.costs[k] = v
        return self.inp

    def _syn_value(self, fs):
        """The container in which a synteny is handed to the package: a list (default), a tuple, a string of
        one-letter family names, or (unordered inputs) a set / frozenset - all legal sequences / collections."""
        form = self.case.get("syn_form")
        if form == "tuple":
            return tuple(fs)
        if form == "str" and all(isinstance(f, str) and len(f) == 1 for f in fs):
            return "".join(fs)
        if form == "set":
            return set(fs)
        if form == "frozenset":
            return frozenset(fs)
        return list(fs)

    def reindexed_inplace(self, rng=None):
        """History workload: reverse child order at (random) internal nodes of the SAME ete3 node objects, both trees,
        then build a brand-new LowestCommonAncestor and input object on them.  Everything the harness extracts is keyed
        by clade, so the expected results are those of the original presentation."""
        for tree in (self.gt, self.st):
            for node in tree.traverse("preorder"):
                if node.children and (rng is None or rng.random() < 0.7):
                    node.children.reverse()
        lm = {self.gnode[v]: self.snode[s] for v, s in self.leafmap.items()}
        costs = mk_costs(self.c) if self.c is not None else None
        kw = {} if costs is None else {"costs": costs}
        if self.syn is None:
            self.inp = ReconciliationInput(self.gt, LowestCommonAncestor(self.st), lm, **kw)
        else:
            ls = {self.gnode[v]: self._syn_value(fs) for v, fs in self.syn.items()}
            if self.root_order is not None:
                ls[self.gt] = self._syn_value(self.root_order)
            self.inp = SuperReconciliationInput(self.gt, LowestCommonAncestor(self.st), lm, leaf_syntenies=ls, **kw)
        return self.inp

    def plain_input(self):
        """A ReconciliationInput (no syntenies) on fresh trees."""
        return Built({k: v for k, v in self.case.items() if k not in ("syn", "root_order")})

    def output(self, m, lab=None, ordered=True):
        """Real output object for a model mapping (and labelling)."""
        om = {self.gnode[v]: self.snode[s] for v, s in m.items()}
        if lab is None:
            return ReconciliationOutput(self.inp, om)
        syn = {self.gnode[v]: (list(x) if ordered else set(x)) for v, x in lab.items()}
        return SuperReconciliationOutput(input=self.inp, object_species=om, syntenies=syn, ordered=ordered)


def extract(out):
    """Harness-side view of a (Super)ReconciliationOutput on its *own* trees.

    Returns dict with model trees G, S, mapping m (possibly partial), labelling lab (or None),
    problems (list of structural problems seen while extracting)."""
    problems = []
    gt = out.input.object_tree
    st = out.input.species_lca.tree
    G, gid = model_from_ete(gt)
    S, sid = model_from_ete(st)
    m = {}
    for node, sp in out.object_species.items():
        if node not in gid:
            problems.append("mapping key is not a node of the output's object tree")
            continue
        if sp not in sid:
            problems.append("mapping value is not a node of the output's species tree")
            continue
        m[gid[node]] = sid[sp]
    lab = None
    if hasattr(out, "syntenies"):
        lab = {}
        for node, syn in out.syntenies.items():
            if node not in gid:
                problems.append("synteny key is not a node of the output's object tree")
                continue
            lab[gid[node]] = tuple(sorted(syn)) if isinstance(syn, (set, frozenset)) else tuple(syn)
    leafmap = {}
    for node, sp in out.input.leaf_object_species.items():
        if node in gid and sp in sid:
            leafmap[gid[node]] = sid[sp]
    leafsyn = None
    if hasattr(out.input, "leaf_syntenies"):
        leafsyn = {gid[n]: tuple(s) for n, s in out.input.leaf_syntenies.items() if n in gid}
    return {"G": G, "S": S, "m": m, "lab": lab, "problems": problems, "leafmap": leafmap, "leafsyn": leafsyn,
            "gid": gid, "sid": sid, "ordered": getattr(out, "ordered", None)}


def canon(G, S, m, lab=None, unordered=False):
    """Clade-keyed canonical form of a solution."""
    items = []
    for v in G.nodes:
        syn = None
        if lab is not None:
            syn = tuple(sorted(lab[v])) if unordered else tuple(lab[v])
        items.append((tuple(sorted(G.clade(v))), tuple(sorted(S.clade(m[v]))), syn))
    return frozenset(items)


def canon_out(out):
    e = extract(out)
    if e["problems"] or set(e["m"]) != set(e["G"].nodes):
        return None
    unordered = e["ordered"] is False
    if e["lab"] is not None and set(e["lab"]) != set(e["G"].nodes):
        return None
    return canon(e["G"], e["S"], e["m"], e["lab"], unordered)


def costs_of(inp):
    c = inp.costs
    return {
        "spe": num(c[NodeEvent.SPECIATION]),
        "dup": num(c[NodeEvent.DUPLICATION]),
        "hgt": num(c[NodeEvent.HORIZONTAL_TRANSFER]),
        "floss": num(c[EdgeEvent.FULL_LOSS]),
        "sloss": num(c[EdgeEvent.SEGMENTAL_LOSS]),
    }
